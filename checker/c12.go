package main

import (
	"fmt"
	"go/ast"
	"go/token"
	"go/types"
	"sort"
	"strings"

	"golang.org/x/tools/go/ssa"
)

func init() {
	register(&Check{
		ID: "C12", Level: "other",
		Explanation: "Decides the structural conditions behind `method > converter > CLI > default` and `validated where written`: (R1) the case-label sets of parseConverterLine / parseMethodLine / parseCommon " +
			"against the documented level table — a known setting stays at its level, both level parsers hand every other key to parseCommon with the address of their own Common, and parseCommon's \"\" and default arms " +
			"are errors; (R2) in parseCommon each documented key assigns its own field, bool fields from parse.Bool(rest), strings from parse.String(rest), the regexp from parse.Regex(rest), rest unmodified; " +
			"parse.Bool means bare/yes → true, no → false; (R3) precedence by construction: defaults, then global (-g) lines, then converter lines, then — on a value copy of the converter's Common — method lines; " +
			"generated sub-methods take the converter's Common; method-level custom functions are parsed with the method's arg:context:regex; the -g lines are wired through to every converter; " +
			"(R4) isolation: Common is copied by value, has no map field, and its slice fields are only extended at converter level; (R5) wrapErrors/wrapErrorsUsing test each other first; " +
			"(R6) every line error is wrapped by formatLineError with the RawLines it came from; (R7) no mutable package-level state. The observable effect of each setting value is not decided.",
		NotDecided: []string{"the observable effect of each setting value on generated code", "malformed-value handling inside strings.Fields/regexp (trusted std behaviour)"},
		Run:        runC12,
	})
}

// settingLevels: documented level of each setting (docs/reference/settings.md, confirmed against the code).
var converterLevelKeys = []string{"converter", "variables", "name", "output:raw", "output:file", "output:format", "output:package", "struct:comment", "enum:exclude", "extend"}
var methodLevelKeys = []string{"map", "ignore", "update", "context", "enum:map", "enum:transform", "autoMap", "default"}

// commonKeys: inheritable setting → (field of config.Common it assigns, value parser).
var commonKeys = map[string][2]string{
	"wrapErrors":                           {"WrapErrors", "Bool"},
	"wrapErrorsUsing":                      {"WrapErrorsUsing", "String"},
	"ignoreUnexported":                     {"IgnoreUnexported", "Bool"},
	"update:ignoreZeroValueField":          {"IgnoreBasicZeroValueField+IgnoreStructZeroValueField+IgnoreNillableZeroValueField", "Bool"},
	"update:ignoreZeroValueField:basic":    {"IgnoreBasicZeroValueField", "Bool"},
	"update:ignoreZeroValueField:struct":   {"IgnoreStructZeroValueField", "Bool"},
	"update:ignoreZeroValueField:nillable": {"IgnoreNillableZeroValueField", "Bool"},
	"default:update":                       {"DefaultUpdate", "Bool"},
	"matchIgnoreCase":                      {"MatchIgnoreCase", "Bool"},
	"ignoreMissing":                        {"IgnoreMissing", "Bool"},
	"skipCopySameType":                     {"SkipCopySameType", "Bool"},
	"useZeroValueOnPointerInconsistency":   {"UseZeroValueOnPointerInconsistency", "Bool"},
	"useUnderlyingTypeMethods":             {"UseUnderlyingTypeMethods", "Bool"},
	"enum":                                 {"Enabled", "Bool"}, // documented converter-level, implemented as inheritable (frozen as-is, see DESIGN C12.R1)
	"arg:context:regex":                    {"ArgContextRegex", "Regex"},
	"enum:unknown":                         {"Unknown", "String"},
}

type switchInfo struct {
	sw     *ast.SwitchStmt
	labels map[string]*ast.CaseClause
	def    *ast.CaseClause
}

// cmdSwitch finds the switch over the command string in fn.
func cmdSwitch(fi *FuncInfo) *switchInfo {
	info := fi.Pkg.TypesInfo
	var best *switchInfo
	ast.Inspect(fi.Decl, func(n ast.Node) bool {
		sw, ok := n.(*ast.SwitchStmt)
		if !ok || sw.Tag == nil {
			return true
		}
		si := &switchInfo{sw: sw, labels: map[string]*ast.CaseClause{}}
		for _, c := range sw.Body.List {
			cc := c.(*ast.CaseClause)
			if len(cc.List) == 0 {
				si.def = cc
			}
			for _, e := range cc.List {
				if s, ok := constString(info, e); ok {
					si.labels[s] = cc
				}
			}
		}
		if best == nil || len(si.labels) > len(best.labels) {
			best = si
		}
		return true
	})
	return best
}

func runC12(p *Prog, r *Report) {
	conv := p.Func("config.parseConverterLine")
	meth := p.Func("config.parseMethodLine")
	comm := p.Func("config.parseCommon")
	r.Rule("C12.R1", "level table: each documented converter-level key is a case of parseConverterLine only, each method-level key of parseMethodLine only, each inheritable key of parseCommon only; both level parsers delegate all other keys to parseCommon(&own.Common, cmd, rest); parseCommon's \"\" and default arms yield an error", 30)
	if conv == nil || meth == nil || comm == nil {
		r.Unresolved("config.parseConverterLine / parseMethodLine / parseCommon")
		return
	}
	cs, ms, ks := cmdSwitch(conv), cmdSwitch(meth), cmdSwitch(comm)
	if cs == nil || ms == nil || ks == nil {
		r.Unresolved("command switch in the three setting parsers")
		return
	}
	levels := []struct {
		name string
		fi   *FuncInfo
		si   *switchInfo
		keys []string
	}{{"converter", conv, cs, converterLevelKeys}, {"method", meth, ms, methodLevelKeys}, {"inheritable", comm, ks, nil}}
	var ck []string
	for k := range commonKeys {
		ck = append(ck, k)
	}
	sort.Strings(ck)
	levels[2].keys = ck
	for li, lv := range levels {
		for _, k := range lv.keys {
			site := fmt.Sprintf("setting %q @%s", k, lv.name)
			cc, ok := lv.si.labels[k]
			if !ok {
				r.Bad(site, p.PosStr(lv.si.sw.Pos()), fmt.Sprintf("documented %s-level setting %q is no longer accepted by %s", lv.name, k, lv.fi.Name()))
				continue
			}
			elsewhere := ""
			for lj, other := range levels {
				if lj != li {
					if _, dup := other.si.labels[k]; dup {
						elsewhere = other.fi.Name()
					}
				}
			}
			if elsewhere != "" {
				r.Bad(site, p.PosStr(cc.Pos()), fmt.Sprintf("%q is also handled by %s: it would be accepted at a level where it is documented as not allowed", k, elsewhere))
				continue
			}
			r.OK(site, p.PosStr(cc.Pos()), "handled at its documented level only")
		}
		// undocumented keys: information
		for k := range lv.si.labels {
			if !has(lv.keys, k) && k != "" {
				r.Note(fmt.Sprintf("setting %q @%s", k, lv.name), p.PosStr(lv.si.labels[k].Pos()), "key not in the reference table (new setting?)")
			}
		}
	}
	// delegation
	for _, lv := range levels[:2] {
		site := lv.fi.Name() + "/default → parseCommon"
		if lv.si.def == nil {
			r.Bad(site, p.PosStr(lv.si.sw.Pos()), "no default arm: unknown keys would be silently accepted")
			continue
		}
		info := lv.fi.Pkg.TypesInfo
		calls := findCalls(info, lv.si.def, modPath+"/config", "", "parseCommon")
		want := "Converter"
		if lv.name == "method" {
			want = "Method"
		}
		okDel := false
		if len(calls) == 1 && len(calls[0].Args) == 3 {
			if u, ok := ast.Unparen(calls[0].Args[0]).(*ast.UnaryExpr); ok && u.Op == token.AND {
				if sel, ok := ast.Unparen(u.X).(*ast.SelectorExpr); ok && sel.Sel.Name == "Common" {
					if n := namedOf(info.TypeOf(sel.X)); n != nil && n.Obj().Name() == want {
						okDel = true
					}
				}
			}
		}
		// the error of parseCommon must be returned
		if okDel {
			r.OK(site, p.PosStr(lv.si.def.Pos()), "parseCommon(&"+strings.ToLower(want[:1])+".Common, cmd, rest)")
		} else {
			r.Bad(site, p.PosStr(lv.si.def.Pos()), "the default arm does not delegate to parseCommon with the address of its own "+want+".Common")
		}
	}
	for _, arm := range []struct {
		name string
		cc   *ast.CaseClause
	}{{`""`, ks.labels[""]}, {"default", ks.def}} {
		site := "config.parseCommon/arm " + arm.name
		if arm.cc == nil {
			r.Bad(site, p.PosStr(ks.sw.Pos()), "arm missing: an empty/unknown setting key would be accepted")
			continue
		}
		if armYieldsError(comm, arm.cc) {
			r.OK(site, p.PosStr(arm.cc.Pos()), "produces an error")
		} else {
			r.Bad(site, p.PosStr(arm.cc.Pos()), "arm does not produce an error: an empty/unknown setting key would be accepted silently")
		}
	}

	c12R2(p, r, comm, ks)
	c12R3(p, r)
	c12R4(p, r)
	c12R5(p, r, comm, ks)
	c12R6(p, r)
	pkgLevelStateRule(p, r, "C12.R7")
	parseEnumCanonicalRule(p, r, "C12.R10")
	valueCountRule(p, r, "C12.R11")
	sharedMapAliasRule(p, r, "C12.R12")
	armEffectRule(p, r, "C12.R13", "config.parseConverterLine", "output:package", "OutputPackagePath", "OutputPackageName")
	requireStructRule(p, r, "C12.R15")
	overrideOverlapRule(p, r, "C12.R16")
	converterArmInventoryRule(p, r, "C12.R17")
	c03R4(p, r, "C12.R18", []string{"config", "config/parse"})
	matchesGates(p, r, "C12.R19", "builder.isEnum")
	enumDisabledRule(p, r, "C12.R20")
	settingLinesTrimRule(p, r, "C12.R14")
	armStoresRule(p, r, "C12.R8", "config.parseMethodLine", allArmKeys("config.parseMethodLine")...)
	armStoresRule(p, r, "C12.R9", "config.parseConverterLine", allArmKeys("config.parseConverterLine")...)
}

func armYieldsError(fi *FuncInfo, cc *ast.CaseClause) bool {
	info := fi.Pkg.TypesInfo
	ok := false
	ast.Inspect(cc, func(n ast.Node) bool {
		switch x := n.(type) {
		case *ast.AssignStmt:
			for i, l := range x.Lhs {
				if id, isID := ast.Unparen(l).(*ast.Ident); isID && isErrorType(info.TypeOf(id)) && len(x.Rhs) == len(x.Lhs) {
					if c := ast.Unparen(x.Rhs[i]); callTo(info, c, "fmt", "", "Errorf") != nil || callTo(info, c, "errors", "", "New") != nil {
						ok = true
					}
				}
			}
		case *ast.ReturnStmt:
			for _, res := range x.Results {
				if callTo(info, res, "fmt", "", "Errorf") != nil || callTo(info, res, "errors", "", "New") != nil {
					ok = true
				}
			}
		}
		return true
	})
	return ok
}

func c12R2(p *Prog, r *Report, comm *FuncInfo, ks *switchInfo) {
	r.Rule("C12.R2", "in parseCommon every documented key assigns its documented field of Common; the assigned value is the result of parse.Bool / parse.String / parse.Regex applied to the unmodified `rest` parameter (or, for update:ignoreZeroValueField, a copy of the value parsed in the same arm); parse.Bool maps bare and `yes` to true and `no` to false", 15)
	info := comm.Pkg.TypesInfo
	sig := comm.Obj.Type().(*types.Signature)
	restParam := sig.Params().At(2)
	var keys []string
	for k := range commonKeys {
		keys = append(keys, k)
	}
	sort.Strings(keys)
	for _, k := range keys {
		cc := ks.labels[k]
		if cc == nil {
			continue // reported by R1
		}
		wantFields := strings.Split(commonKeys[k][0], "+")
		parser := commonKeys[k][1]
		site := fmt.Sprintf("config.parseCommon/case %q", k)
		assigned := map[string]string{} // field → how
		bad := ""
		ast.Inspect(cc, func(n ast.Node) bool {
			as, ok := n.(*ast.AssignStmt)
			if !ok {
				return true
			}
			for i, l := range as.Lhs {
				sel, ok := ast.Unparen(l).(*ast.SelectorExpr)
				if !ok {
					continue
				}
				v, ok := info.ObjectOf(sel.Sel).(*types.Var)
				if !ok || !v.IsField() {
					continue
				}
				if !(fieldOwnerIs(info, sel, modPath+"/config", "Common") || fieldOwnerIs(info, sel, modPath+"/enum", "Config")) {
					continue
				}
				// RHS
				var rhs ast.Expr
				if len(as.Rhs) == 1 {
					rhs = as.Rhs[0]
				} else if len(as.Rhs) == len(as.Lhs) {
					rhs = as.Rhs[i]
				}
				if call := callTo(info, rhs, modPath+"/config/parse", "", parser); call != nil && len(as.Rhs) == 1 && i == 0 {
					if id, ok := ast.Unparen(call.Args[0]).(*ast.Ident); ok && info.ObjectOf(id) == restParam {
						assigned[sel.Sel.Name] = "parse." + parser + "(rest)"
						continue
					}
					bad = "parse." + parser + " is not applied to the unmodified rest parameter"
					continue
				}
				if rs, ok := ast.Unparen(rhs).(*ast.SelectorExpr); ok && (fieldOwnerIs(info, rs, modPath+"/config", "Common")) {
					if _, parsedHere := assigned[rs.Sel.Name]; parsedHere {
						assigned[sel.Sel.Name] = "copy of " + rs.Sel.Name + " parsed in the same arm"
						continue
					}
				}
				bad = fmt.Sprintf("field %s is assigned %s instead of the result of parse.%s(rest)", sel.Sel.Name, exprString(rhs), parser)
			}
			return true
		})
		// the arm may have been moved into a private helper: decide by evaluation
		if evalBad := commonArmEval(p, comm, k, wantFields, parser); evalBad == "" {
			r.OK(site, p.PosStr(cc.Pos()), fmt.Sprintf("evaluated with the command fixed: a successful return leaves exactly %v holding parse.%s(rest)", wantFields, parser))
			continue
		}
		if bad != "" {
			r.Bad(site, p.PosStr(cc.Pos()), bad)
			continue
		}
		missing := []string{}
		for _, f := range wantFields {
			if _, ok := assigned[f]; !ok {
				missing = append(missing, f)
			}
		}
		extra := []string{}
		for f := range assigned {
			if !has(wantFields, f) {
				extra = append(extra, f)
			}
		}
		sort.Strings(extra)
		if len(missing) > 0 || len(extra) > 0 {
			r.Bad(site, p.PosStr(cc.Pos()), fmt.Sprintf("setting %q must assign exactly %v; missing %v, unexpected %v", k, wantFields, missing, extra))
			continue
		}
		r.OK(site, p.PosStr(cc.Pos()), fmt.Sprintf("assigns %v from parse.%s(rest)", wantFields, parser))
	}
	// parse.Bool semantics
	bf := p.Func("config/parse.Bool")
	if bf == nil {
		r.Unresolved("config/parse.Bool")
		return
	}
	binfo := bf.Pkg.TypesInfo
	okEnum, okRet := false, false
	ast.Inspect(bf.Decl, func(n ast.Node) bool {
		switch x := n.(type) {
		case *ast.CallExpr:
			if fn, ok := calleeObj(binfo, x).(*types.Func); ok && fn.Name() == "Enum" && len(x.Args) == 4 {
				e, ok0 := ast.Unparen(x.Args[0]).(*ast.Ident)
				a, ok1 := constString(binfo, x.Args[2])
				b, ok2 := constString(binfo, x.Args[3])
				vals := map[string]bool{a: true, b: true}
				if ok0 && e.Name == "true" && ok1 && ok2 && vals["yes"] && vals["no"] && isParamIdent(binfo, bf, x.Args[1], 0) {
					okEnum = true
				}
			}
		case *ast.ReturnStmt:
			if len(x.Results) == 2 {
				ds := disjuncts(x.Results[0])
				got := map[string]bool{}
				for _, d := range ds {
					if b, ok := ast.Unparen(d).(*ast.BinaryExpr); ok && b.Op == token.EQL {
						if s, ok := constString(binfo, b.Y); ok {
							got[s] = true
						}
					}
				}
				if len(ds) == 2 && got[""] && got["yes"] {
					okRet = true
				}
			}
		}
		return true
	})
	if okEnum && !okRet {
		okRet = boolTableEval(p, bf) // any spelling of the result, decided for "", "yes", "no"
	}
	if okEnum && okRet {
		r.OK("config/parse.Bool", p.PosStr(bf.Decl.Pos()), "Enum(empty allowed, remaining, yes, no); true iff the value is empty or `yes`")
	} else {
		r.Bad("config/parse.Bool", p.PosStr(bf.Decl.Pos()), "parse.Bool no longer means: bare or `yes` → true, `no` → false, anything else → error")
	}
}

func isParamIdent(info *types.Info, fi *FuncInfo, e ast.Expr, idx int) bool {
	id, ok := ast.Unparen(e).(*ast.Ident)
	if !ok {
		return false
	}
	sig := fi.Obj.Type().(*types.Signature)
	return idx < sig.Params().Len() && info.ObjectOf(id) == sig.Params().At(idx)
}

func c12R3(p *Prog, r *Report) {
	r.Rule("C12.R3", "precedence by construction: parseConverter applies the global lines before the converter's lines before parseMethods; initConverter starts from the Default* config; parseMethod starts from a value copy of c.Common and applies the method's lines afterwards; createSubMethod gives generated methods the converter's Common (never the calling method's); method-level custom functions are parsed with the method's ArgContextRegex; -g lines reach every converter", 8)
	// (a) order in parseConverter
	fi, sf := needFunc(p, r, "config.parseConverter")
	if fi != nil {
		calls := callsIn(sf, false, isObj(modPath+"/config", "", "parseConverterLines"))
		pm := callsIn(sf, false, isObj(modPath+"/config", "", "parseMethods"))
		var gl, cv ssa.CallInstruction
		for _, c := range calls {
			arg := c.Common().Args[3]
			if prm, ok := arg.(*ssa.Parameter); ok && prm.Name() == fi.Obj.Type().(*types.Signature).Params().At(2).Name() {
				gl = c
			} else if isConfigField(arg, "Converter") {
				cv = c
			}
		}
		site := "config.parseConverter/order"
		switch {
		case gl == nil || cv == nil || len(pm) != 1 || len(calls) != 2:
			r.Bad(site, p.PosStr(fi.Decl.Pos()), "expected exactly parseConverterLines(global), parseConverterLines(rawConverter.Converter) and parseMethods")
		case !strictlyBefore(gl, cv) || !strictlyBefore(cv, pm[0]):
			r.Bad(site, p.PosStr(fi.Decl.Pos()), "global (-g) lines are not applied before the converter's own lines, or methods are parsed before the converter is configured: a lower level would override a higher one")
		default:
			r.OK(site, p.PosStr(fi.Decl.Pos()), "global lines → converter lines → parseMethods (dominance order)")
		}
	}
	// (b) initConverter defaults
	if fi := p.Func("config.initConverter"); fi != nil {
		info := fi.Pkg.TypesInfo
		n := 0
		var decls []ast.Node
		for _, rf := range p.Region("config.initConverter") {
			decls = append(decls, rf.Decl)
		}
		for _, d := range decls {
			ast.Inspect(d, func(nn ast.Node) bool {
				as, ok := nn.(*ast.AssignStmt)
				if !ok || len(as.Lhs) != 1 {
					return true
				}
				if isFieldSel(info, as.Lhs[0], modPath+"/config", "Converter", "ConverterConfig") {
					if id, ok := ast.Unparen(as.Rhs[0]).(*ast.Ident); ok && strings.HasPrefix(id.Name, "DefaultConfig") {
						n++
					} else {
						n = -100
					}
				}
				return true
			})
		}
		if n == 2 {
			r.OK("config.initConverter/defaults", p.PosStr(fi.Decl.Pos()), "ConverterConfig starts from DefaultConfigInterface / DefaultConfigVariables")
		} else {
			r.Bad("config.initConverter/defaults", p.PosStr(fi.Decl.Pos()), "a converter does not start from the documented defaults")
		}
	} else {
		r.Unresolved("config.initConverter")
	}
	// (c) parseMethod: Method{Common: c.Common}, then lines
	if fi := p.Func("config.parseMethod"); fi != nil {
		info := fi.Pkg.TypesInfo
		okCopy := false
		var lit *ast.CompositeLit
		ast.Inspect(fi.Decl, func(nn ast.Node) bool {
			cl, ok := nn.(*ast.CompositeLit)
			if ok && isNamed(info.TypeOf(cl), modPath+"/config", "Method") {
				lit = cl
				if v := compositeField(cl, "Common"); v != nil {
					if sel, ok := ast.Unparen(v).(*ast.SelectorExpr); ok && sel.Sel.Name == "Common" && isNamed(info.TypeOf(sel.X), modPath+"/config", "Converter") {
						okCopy = true
					}
				}
			}
			return true
		})
		calls := findCalls(info, fi.Decl, modPath+"/config", "", "parseMethodLine")
		if len(calls) == 0 {
			// the lines may be applied by a private helper of parseMethod
			ast.Inspect(fi.Decl, func(nn ast.Node) bool {
				call, ok := nn.(*ast.CallExpr)
				if !ok {
					return true
				}
				if f, ok := calleeObj(info, call).(*types.Func); ok && !f.Exported() && objPkgPath(f) == modPath+"/config" {
					if h := p.Func(funcKey(f)); h != nil && p.inRegion("config.parseMethod", h) && len(findCalls(info, h.Decl, modPath+"/config", "", "parseMethodLine")) == 1 {
						calls = append(calls, call)
					}
				}
				return true
			})
		}
		if okCopy && lit != nil && len(calls) == 1 && calls[0].Pos() > lit.End() {
			r.OK("config.parseMethod/inherit", p.PosStr(lit.Pos()), "Method.Common is a value copy of the converter's Common; method lines are applied to it afterwards")
		} else {
			r.Bad("config.parseMethod/inherit", p.PosStr(fi.Decl.Pos()), "a method does not start from a value copy of its converter's Common before its own lines are applied")
		}
	} else {
		r.Unresolved("config.parseMethod")
	}
	// (d) createSubMethod
	subMethodCommonRule(p, r, "generator.(*generator).createSubMethod/Common")
	// (e) method-level ParseOpts use the method's regex
	parseOptsContextRule(p, r)
	// (f) -g wiring
	wire := []struct{ fn, typPkg, typ, field, ownerPkg, owner, src string }{
		{"goverter.generateConvertersRaw", modPath + "/config", "Raw", "Global", modPath, "GenerateConfig", "Global"},
	}
	for _, w := range wire {
		fi := p.Func(w.fn)
		if fi == nil {
			r.Unresolved(w.fn)
			continue
		}
		info := fi.Pkg.TypesInfo
		ok := false
		p.inspectRegion(w.fn, func(_ *FuncInfo, nn ast.Node) bool {
			cl, isCl := nn.(*ast.CompositeLit)
			if isCl && isNamed(info.TypeOf(cl), w.typPkg, w.typ) {
				if v := compositeField(cl, w.field); v != nil && isFieldSel(info, v, w.ownerPkg, w.owner, w.src) {
					ok = true
				}
			}
			return true
		})
		if ok {
			r.OK(w.fn+"/"+w.typ+"."+w.field, p.PosStr(fi.Decl.Pos()), "wired to "+w.owner+"."+w.src)
		} else {
			r.Bad(w.fn+"/"+w.typ+"."+w.field, p.PosStr(fi.Decl.Pos()), "the -g/-global lines do not reach config.Parse")
		}
	}
	if fi := p.Func("config.Parse"); fi != nil {
		info := fi.Pkg.TypesInfo
		var calls []*ast.CallExpr
		for _, rf := range p.Region("config.Parse") {
			calls = append(calls, findCalls(info, rf.Decl, modPath+"/config", "", "parseConverter")...)
		}
		if len(calls) == 1 && isFieldSel(info, calls[0].Args[2], modPath+"/config", "Raw", "Global") {
			r.OK("config.Parse/parseConverter(global)", p.PosStr(calls[0].Pos()), "every converter receives raw.Global")
		} else {
			r.Bad("config.Parse/parseConverter(global)", p.PosStr(fi.Decl.Pos()), "parseConverter is not called with raw.Global")
		}
	}
	if fi := p.Func("cli.parseGen"); fi != nil {
		info := fi.Pkg.TypesInfo
		ok := false
		for _, rf := range p.Region("cli.parseGen") {
			rf := rf
			ast.Inspect(rf.Decl, func(nn ast.Node) bool {
				cl, isCl := nn.(*ast.CompositeLit)
				if isCl && isNamed(info.TypeOf(cl), modPath+"/config", "RawLines") {
					if v := compositeField(cl, "Lines"); v != nil {
						if id, isID := ast.Unparen(v).(*ast.Ident); isID {
							// the variable registered with fs.Var(&global, "g"/"global") — possibly handed to a private helper
							obj := info.ObjectOf(id)
							if rf != fi {
								if e, in := originExpr(p, rf, id, 0); e == nil || in != fi {
									// a parameter: take the caller's argument
									if prmObj, isVar := obj.(*types.Var); isVar && isParamOf(rf, prmObj) {
										for _, cs := range p.Calls() {
											if f, isF := cs.Callee.(*types.Func); isF && f.Origin() == rf.Obj.Origin() && cs.Encl == fi {
												sig := rf.Obj.Type().(*types.Signature)
												for i := 0; i < sig.Params().Len() && i < len(cs.Call.Args); i++ {
													if sig.Params().At(i) == prmObj {
														if aid := rootIdent(cs.Call.Args[i]); aid != nil {
															obj = info.ObjectOf(aid)
														}
													}
												}
											}
										}
									}
								}
							}
							flags := map[string]bool{}
							ast.Inspect(fi.Decl, func(m ast.Node) bool {
								call, isCall := m.(*ast.CallExpr)
								if isCall && len(call.Args) == 3 {
									if fn, isFn := calleeObj(info, call).(*types.Func); isFn && objPkgPath(fn) == "flag" && fn.Name() == "Var" {
										if rid := rootIdent(unaddr(call.Args[0])); rid != nil && info.ObjectOf(rid) == obj {
											if s, isS := constString(info, call.Args[1]); isS {
												flags[s] = true
											}
										}
									}
								}
								return true
							})
							if flags["g"] && flags["global"] {
								ok = true
							}
						}
					}
				}
				return true
			})
		}
		if ok {
			r.OK("cli.parseGen/-g", p.PosStr(fi.Decl.Pos()), "flags -g and -global collect into GenerateConfig.Global.Lines")
		} else {
			r.Bad("cli.parseGen/-g", p.PosStr(fi.Decl.Pos()), "flags -g/-global are not collected into GenerateConfig.Global.Lines")
		}
	}
}

func strictlyBefore(a, b ssa.CallInstruction) bool {
	ai, bi := a.(ssa.Instruction), b.(ssa.Instruction)
	if ai.Block() == bi.Block() {
		return instrIndex(ai) < instrIndex(bi)
	}
	return ai.Block().Dominates(bi.Block())
}

// subMethodCommonRule: the config.Method literal of a generated sub-method takes
// Common from g.conf.Common and nothing later overwrites Common fields from ctx.
func subMethodCommonRule(p *Prog, r *Report, site string) {
	fi := p.Func("generator.(*generator).createSubMethod")
	if fi == nil {
		r.Unresolved("generator.(*generator).createSubMethod")
		return
	}
	info := fi.Pkg.TypesInfo
	found, ok := false, false
	// createSubMethod and the private helpers it builds the method with
	var regionDecl []ast.Node
	for _, rf := range p.Region("generator.(*generator).createSubMethod") {
		regionDecl = append(regionDecl, rf.Decl)
	}
	inspectAll := func(f func(n ast.Node) bool) {
		for _, d := range regionDecl {
			ast.Inspect(d, f)
		}
	}
	inspectAll(func(n ast.Node) bool {
		cl, isCl := n.(*ast.CompositeLit)
		if !isCl || !isNamed(info.TypeOf(cl), modPath+"/config", "Method") {
			return true
		}
		found = true
		v := compositeField(cl, "Common")
		if v == nil {
			return true
		}
		// g.conf.Common
		if sel, isSel := ast.Unparen(v).(*ast.SelectorExpr); isSel && sel.Sel.Name == "Common" {
			if isFieldSel(info, sel.X, modPath+"/generator", "generator", "conf") {
				ok = true
			}
		}
		return true
	})
	if !found {
		r.Unresolved("config.Method literal in createSubMethod")
		return
	}
	if !ok {
		r.Bad(site, p.PosStr(fi.Decl.Pos()), "a generated sub-method does not take its settings from the converter (g.conf.Common): sub-methods are shared by sibling methods, so one method's settings would change the behaviour of its siblings")
		return
	}
	// later stores into Common fields of the new method
	bad := ""
	inspectAll(func(n ast.Node) bool {
		as, isAs := n.(*ast.AssignStmt)
		if !isAs {
			return true
		}
		for _, l := range as.Lhs {
			sel, isSel := ast.Unparen(l).(*ast.SelectorExpr)
			if !isSel {
				continue
			}
			if fieldOwnerIs(info, sel, modPath+"/config", "Common") || fieldOwnerIs(info, sel, modPath+"/enum", "Config") || sel.Sel.Name == "Common" && isNamed(info.TypeOf(sel), modPath+"/config", "Common") {
				bad = p.PosStr(as.Pos()) + ": " + exprString(l) + " is overwritten after construction"
			}
		}
		return true
	})
	if bad != "" {
		r.Bad(site, p.PosStr(fi.Decl.Pos()), "settings of a generated sub-method are modified after taking the converter's Common: "+bad)
		return
	}
	r.OK(site, p.PosStr(fi.Decl.Pos()), "Common: g.conf.Common (converter level), not modified afterwards")
}

// parseOptsContextRule: ParseOpts handed to the loader from parseMethodLine carry the method's regex.
func parseOptsContextRule(p *Prog, r *Report) {
	type site struct{ fn, want string }
	for _, s := range []site{{"config.parseMethodLine", "Method"}, {"config.parseConverterLine", "Converter"}, {"config.parseMethod", "Method"}} {
		fi := p.Func(s.fn)
		if fi == nil {
			r.Unresolved(s.fn)
			continue
		}
		n := 0
		for _, lc := range loaderCallsIn(p, fi, fi.Decl.Body, 1) {
			call := lc.call
			n++
			st := fmt.Sprintf("%s/%s#%d ContextMatch", s.fn, lc.name, n)
			lit, owner := resolveParseOpts(p, lc.owner, lc.opt, 0)
			if lit == nil {
				r.Bad(st, p.PosStr(call.Pos()), "cannot resolve the method.ParseOpts passed here to a composite literal")
				continue
			}
			linfo := owner.Pkg.TypesInfo
			v := compositeField(lit, "ContextMatch")
			if v == nil {
				r.Bad(st, p.PosStr(call.Pos()), "ParseOpts.ContextMatch is not set: arg:context:regex would not apply to this function")
				continue
			}
			sel, ok := ast.Unparen(v).(*ast.SelectorExpr)
			if !ok || sel.Sel.Name != "ArgContextRegex" {
				r.Bad(st, p.PosStr(v.Pos()), "ContextMatch is "+exprString(v)+", not the configured ArgContextRegex")
				continue
			}
			base := namedOf(linfo.TypeOf(sel.X))
			if base != nil && base.Obj().Name() == s.want {
				r.OK(st, p.PosStr(v.Pos()), "ContextMatch = "+strings.ToLower(s.want[:1])+".ArgContextRegex ("+s.want+" level in effect)")
			} else {
				got := "?"
				if base != nil {
					got = base.Obj().Name()
				}
				r.Bad(st, p.PosStr(v.Pos()), fmt.Sprintf("ContextMatch is taken from the %s, but the setting in effect here is the %s's (method > converter): a method-level arg:context:regex is ignored for this custom function", got, s.want))
			}
		}
	}
}

// resolveParseOpts follows e to the &method.ParseOpts{…} literal: directly, through a
// local variable, or through a call to an own helper that returns such a literal.
func resolveParseOpts(p *Prog, fi *FuncInfo, e ast.Expr, depth int) (*ast.CompositeLit, *FuncInfo) {
	if depth > 2 || e == nil {
		return nil, nil
	}
	info := fi.Pkg.TypesInfo
	e = unaddr(e)
	switch x := e.(type) {
	case *ast.CompositeLit:
		if isNamed(info.TypeOf(x), modPath+"/method", "ParseOpts") {
			return x, fi
		}
	case *ast.Ident:
		// nearest preceding definition in the same case clause / function
		obj := info.ObjectOf(x)
		var def ast.Expr
		ast.Inspect(fi.Decl, func(n ast.Node) bool {
			as, ok := n.(*ast.AssignStmt)
			if !ok {
				return true
			}
			for i, l := range as.Lhs {
				if id, ok := ast.Unparen(l).(*ast.Ident); ok && info.ObjectOf(id) == obj && len(as.Rhs) == len(as.Lhs) {
					def = as.Rhs[i]
				}
			}
			return true
		})
		return resolveParseOpts(p, fi, def, depth+1)
	case *ast.CallExpr:
		if fn, ok := calleeObj(info, x).(*types.Func); ok {
			if h := p.funcIdx[funcKey(fn)]; h != nil {
				var lit *ast.CompositeLit
				ast.Inspect(h.Decl, func(n ast.Node) bool {
					if ret, ok := n.(*ast.ReturnStmt); ok && len(ret.Results) == 1 {
						if l, _ := resolveParseOpts(p, h, ret.Results[0], depth+1); l != nil {
							lit = l
						}
					}
					return true
				})
				if lit != nil {
					return lit, h
				}
			}
		}
	}
	return nil, nil
}

func c12R4(p *Prog, r *Report) {
	r.Rule("C12.R4", "isolation: config.Common (incl. enum.Config) has no map- or pointer-to-struct field (its only reference fields are an immutable *regexp.Regexp and slices); slices of Common are modified only by x = append(x, …) in parseConverterLine; no *Common is stored in a struct field, map or global", 3)
	cfg := p.Pkg("config")
	tn, _ := cfg.Types.Scope().Lookup("Common").(*types.TypeName)
	if tn == nil {
		r.Unresolved("config.Common")
		return
	}
	var walk func(t types.Type, path string)
	walk = func(t types.Type, path string) {
		st, ok := t.Underlying().(*types.Struct)
		if !ok {
			return
		}
		for i := 0; i < st.NumFields(); i++ {
			f := st.Field(i)
			site := "config.Common" + path + "." + f.Name()
			switch u := f.Type().Underlying().(type) {
			case *types.Map, *types.Chan, *types.Signature, *types.Interface:
				r.Bad(site, p.PosStr(f.Pos()), "reference-typed field shared between the converter's Common and the copies held by its methods: a method-level change could leak to siblings")
			case *types.Pointer:
				if isNamed(f.Type(), "regexp", "Regexp") {
					r.OK(site, p.PosStr(f.Pos()), "*regexp.Regexp (immutable after Compile)")
				} else {
					r.Bad(site, p.PosStr(f.Pos()), "pointer field shared between copies of Common")
				}
			case *types.Slice:
				r.OK(site, p.PosStr(f.Pos()), "slice: only ever extended by append at converter level (checked below)")
			case *types.Struct:
				walk(f.Type(), path+"."+f.Name())
				_ = u
			default:
				r.OK(site, p.PosStr(f.Pos()), "value field")
			}
		}
	}
	walk(tn.Type(), "")
	// slice modifications
	for _, fi := range p.Funcs {
		info := fi.Pkg.TypesInfo
		ast.Inspect(fi.Decl, func(n ast.Node) bool {
			as, ok := n.(*ast.AssignStmt)
			if !ok {
				return true
			}
			for i, l := range as.Lhs {
				base := ast.Unparen(l)
				if ix, ok := base.(*ast.IndexExpr); ok {
					if sel, ok := ast.Unparen(ix.X).(*ast.SelectorExpr); ok && (fieldOwnerIs(info, sel, modPath+"/config", "Common") || fieldOwnerIs(info, sel, modPath+"/enum", "Config")) {
						r.Bad(fi.Name()+"/"+exprString(l), p.PosStr(as.Pos()), "element store into a slice of Common: the backing array is shared with the copies held by methods")
					}
					continue
				}
				sel, ok := base.(*ast.SelectorExpr)
				if !ok || !(fieldOwnerIs(info, sel, modPath+"/config", "Common") || fieldOwnerIs(info, sel, modPath+"/enum", "Config")) {
					continue
				}
				if _, isSlice := info.TypeOf(sel).Underlying().(*types.Slice); !isSlice {
					continue
				}
				okApp := false
				if len(as.Rhs) == len(as.Lhs) {
					if call, ok := ast.Unparen(as.Rhs[i]).(*ast.CallExpr); ok {
						if b, ok := calleeObj(info, call).(*types.Builtin); ok && b.Name() == "append" && exprString(call.Args[0]) == exprString(l) {
							okApp = true
						}
					}
				}
				if okApp && fi.Name() == "config.parseConverterLine" {
					r.OK(fi.Name()+"/"+exprString(l), p.PosStr(as.Pos()), "append at converter level")
				} else {
					r.Bad(fi.Name()+"/"+exprString(l), p.PosStr(as.Pos()), "slice of Common modified outside parseConverterLine or not by append")
				}
			}
			return true
		})
	}
	// *Common stored?
	for _, pkg := range p.Own {
		sc := pkg.Types.Scope()
		for _, name := range sc.Names() {
			tn, ok := sc.Lookup(name).(*types.TypeName)
			if !ok {
				continue
			}
			st, ok := tn.Type().Underlying().(*types.Struct)
			if !ok {
				continue
			}
			for i := 0; i < st.NumFields(); i++ {
				if pt, ok := st.Field(i).Type().(*types.Pointer); ok && isNamed(pt, modPath+"/config", "Common") {
					r.Bad(relPkg(pkg.PkgPath)+"."+name+"."+st.Field(i).Name(), p.PosStr(st.Field(i).Pos()), "a *config.Common is stored in a struct: settings would be shared by reference")
				}
			}
		}
	}
}

func c12R5(p *Prog, r *Report, comm *FuncInfo, ks *switchInfo) {
	r.Rule("C12.R5", "the conflicting pair: evaluated with the key fixed to wrapErrors and Common.WrapErrorsUsing already set (resp. wrapErrorsUsing with Common.WrapErrors set), parseCommon cannot return success and cannot have stored the new value", 2)
	sf := p.SSAFunc(comm)
	if sf == nil || len(sf.Params) < 2 {
		r.Unresolved("SSA of config.parseCommon")
		return
	}
	for _, pr := range [][2]string{{"wrapErrors", "WrapErrorsUsing"}, {"wrapErrorsUsing", "WrapErrors"}} {
		key, other := pr[0], pr[1]
		own := map[string]string{"wrapErrors": "WrapErrors", "wrapErrorsUsing": "WrapErrorsUsing"}[key]
		site := fmt.Sprintf("config.parseCommon/case %q conflict", key)
		nOther := 0
		sc := &absScenario{
			assume: func(v ssa.Value, _ func(ssa.Value) absVal) (absVal, bool) {
				if v == ssa.Value(sf.Params[1]) {
					return aStr(key), true
				}
				// the other setting is already in force
				if other == "WrapErrors" && loadsFieldNamed(v, "WrapErrors") {
					nOther++
					return aBool(true), true
				}
				if bo, ok := v.(*ssa.BinOp); ok && other == "WrapErrorsUsing" && (bo.Op == token.EQL || bo.Op == token.NEQ) {
					x, y := bo.X, bo.Y
					if _, isK := x.(*ssa.Const); isK {
						x, y = y, x
					}
					if k, isK := y.(*ssa.Const); isK && loadsFieldNamed(x, "WrapErrorsUsing") {
						if a := constVal(k); a.k == absStr && a.s == "" {
							nOther++
							return aBool(bo.Op == token.NEQ), true
						}
					}
				}
				return aUnknown, false
			},
			marks: func(in ssa.Instruction) (string, bool) {
				if st, ok := in.(*ssa.Store); ok {
					if fa, ok := st.Addr.(*ssa.FieldAddr); ok && fieldName(fa) == own {
						return "stored", true
					}
				}
				return "", false
			},
		}
		got := absReachState(sf, sc, func(ret *ssa.Return, eval func(ssa.Value) absVal, st map[string]absVal) bool {
			if _, stored := st["@stored"]; stored {
				return true
			}
			return successGoal(ret, eval)
		})
		switch {
		case nOther == 0:
			r.Bad(site, p.PosStr(comm.Decl.Pos()), "the arm does not look at Common."+other+" at all: the conflicting pair would be accepted")
		case got != nil:
			r.Bad(site, p.PosStr(got.Pos()), "with "+other+" already set the arm can still succeed or store "+own+": wrapErrors and wrapErrorsUsing could both be in force")
		default:
			r.OK(site, p.PosStr(comm.Decl.Pos()), "with "+other+" set: no success, nothing stored")
		}
	}
	_ = ks
}

func c12R6(p *Prog, r *Report) {
	r.Rule("C12.R6", "located errors: every error returned by parseConverterLine / parseMethodLine reaches the user only wrapped by formatLineError(<the RawLines the line came from>, …)", 2)
	for _, s := range []struct{ caller, callee string }{{"config.parseConverterLines", "parseConverterLine"}, {"config.parseMethod", "parseMethodLine"}} {
		fi, sf := needFunc(p, r, s.caller)
		if fi == nil {
			continue
		}
		for _, ec := range errorCalls(sf) {
			if ec.calle == nil || ec.calle.Name() != s.callee {
				continue
			}
			site := s.caller + "/" + s.callee + " error"
			if len(ec.vals) != 1 {
				r.Bad(site, p.PosStr(ec.call.Pos()), "error discarded")
				continue
			}
			al := aliasesOf(ec.vals[0])
			wrapped, leaked := false, false
			for a := range al {
				if a.Referrers() == nil {
					continue
				}
				for _, ref := range *a.Referrers() {
					switch x := ref.(type) {
					case *ssa.Return:
						leaked = true
					case ssa.CallInstruction:
						if o := ssaCalleeObj(x); o != nil && o.Name() == "formatLineError" {
							// first argument must be the RawLines parameter the lines are ranged from
							if prm := rootParam(x.Common().Args[0]); prm != nil && isNamed(prm.Type(), modPath+"/config", "RawLines") {
								wrapped = true
							}
						}
					}
				}
			}
			if wrapped && !leaked {
				r.OK(site, p.PosStr(ec.call.Pos()), "wrapped by formatLineError with the originating RawLines (location)")
			} else {
				r.Bad(site, p.PosStr(ec.call.Pos()), "a setting error can reach the user without the location it was written at")
			}
		}
	}
	if fi := p.Func("config.formatLineError"); fi != nil {
		if mentionsField(fi.Pkg.TypesInfo, fi.Decl, modPath+"/config", "RawLines", "Location") {
			r.OK("config.formatLineError/Location", p.PosStr(fi.Decl.Pos()), "the message includes lines.Location")
		} else {
			r.Bad("config.formatLineError/Location", p.PosStr(fi.Decl.Pos()), "formatLineError no longer prints lines.Location")
		}
	} else {
		r.Unresolved("config.formatLineError")
	}
}

func rootParam(v ssa.Value) *ssa.Parameter {
	for i := 0; i < 6; i++ {
		switch x := v.(type) {
		case *ssa.Parameter:
			return x
		case *ssa.UnOp:
			v = x.X
		case *ssa.FieldAddr:
			v = x.X
		case *ssa.Field:
			v = x.X
		case *ssa.Alloc:
			// local copy of a parameter
			if x.Referrers() != nil {
				for _, r := range *x.Referrers() {
					if st, ok := r.(*ssa.Store); ok && st.Addr == x {
						v = st.Val
					}
				}
			}
			if v == ssa.Value(x) {
				return nil
			}
		default:
			return nil
		}
	}
	return nil
}

// commonArmEval evaluates config.parseCommon with the command fixed to key and the value produced by
// parse.<parser>(<the rest parameter>) replaced by a marker: on every successful return exactly the wanted fields
// hold the marker and no other documented field was written.  "" = proved.
func commonArmEval(p *Prog, comm *FuncInfo, key string, want []string, parser string) string {
	sf := p.SSAFunc(comm)
	if sf == nil {
		return "no SSA"
	}
	var strs []*ssa.Parameter
	for _, prm := range sf.Params {
		if types.Identical(prm.Type().Underlying(), types.Typ[types.String]) {
			strs = append(strs, prm)
		}
	}
	if len(strs) != 2 {
		return "parameters (cmd, rest) not recognised"
	}
	cmd, rest := strs[0], strs[1]
	var resolve func(v ssa.Value, d int) ssa.Value
	resolve = func(v ssa.Value, d int) ssa.Value {
		prm, ok := v.(*ssa.Parameter)
		if !ok || prm.Parent() == sf || d > 3 {
			return v
		}
		sites := p.SSACallSites(prm.Parent())
		if len(sites) != 1 {
			return v
		}
		for i, q := range prm.Parent().Params {
			if q == prm && i < len(sites[0].Common().Args) {
				return resolve(sites[0].Common().Args[i], d+1)
			}
		}
		return v
	}
	tracked := map[string]absVal{}
	for _, kv := range commonKeys {
		for _, f := range strings.Split(kv[0], "+") {
			tracked[f] = aStr("<unset>")
		}
	}
	nParsed := 0
	sc := &absScenario{
		tracked:     tracked,
		unsetMarker: "<unset>",
		assume: func(v ssa.Value, _ func(ssa.Value) absVal) (absVal, bool) {
			if v == ssa.Value(cmd) {
				return aStr(key), true
			}
			if ex, ok := v.(*ssa.Extract); ok {
				if c, ok := ex.Tuple.(*ssa.Call); ok && ssaCalleeObj(c) != nil && isFunc(ssaCalleeObj(c), modPath+"/config/parse", "", parser) && len(c.Call.Args) > 0 && resolve(c.Call.Args[0], 0) == ssa.Value(rest) {
					switch ex.Index {
					case 0:
						nParsed++
						return aStr("<parsed>"), true
					case 1:
						return aNil, true
					}
				}
			}
			return aUnknown, false
		},
	}
	bad := ""
	got := absReachState(sf, sc, func(ret *ssa.Return, eval func(ssa.Value) absVal, st map[string]absVal) bool {
		if a := eval(ret.Results[len(ret.Results)-1]); a.k == absNonNil {
			return false
		}
		for f := range tracked {
			v := st[f]
			if has(want, f) {
				if !(v.k == absStr && v.s == "<parsed>") {
					bad = "field " + f + " does not hold the parsed value on a successful return"
					return true
				}
			} else if !(v.k == absStr && v.s == "<unset>") {
				bad = "field " + f + " is written by this setting"
				return true
			}
		}
		return false
	})
	if got != nil {
		if bad == "" {
			bad = "the arm could not be evaluated completely"
		}
		return bad
	}
	if nParsed == 0 {
		return "parse." + parser + "(rest) is not consulted"
	}
	return ""
}
