package main

import (
	_ "embed"
	"encoding/json"
	"flag"
	"fmt"
	"os"
	"path/filepath"
	"runtime/debug"
	"sort"
	"strconv"
	"strings"
	"time"
)

// Check is the set of rules deciding (a clause of) one property.
type Check struct {
	ID          string
	Level       string
	Explanation string
	NotDecided  []string
	Assumptions []string
	Run         func(p *Prog, r *Report)
	// Controls: overlay files (path relative to the repository root → content) that
	// add deliberately violating code to the tree, and the rules that must fire on it.
	Controls     map[string]string
	ControlRules []string
}

var checks = map[string]*Check{}

func register(c *Check) { checks[c.ID] = c }

func main() {
	if len(os.Args) < 2 {
		usage()
	}
	switch os.Args[1] {
	case "check":
		os.Exit(cmdCheck(os.Args[2:]))
	case "replay":
		os.Exit(cmdReplay(os.Args[2:]))
	case "list":
		var ids []string
		for id := range checks {
			ids = append(ids, id)
		}
		sort.Strings(ids)
		for _, id := range ids {
			fmt.Println(id)
		}
	case "selftest":
		os.Exit(cmdSelftest(os.Args[2:]))
	case "alpharename":
		os.Exit(cmdAlphaRename(os.Args[2:]))
	default:
		usage()
	}
}

func usage() {
	fmt.Fprintln(os.Stderr, "usage: gvlint check -property Cnn [-tier quick|thorough] [-repo /repo] [-verif /verif]\n       gvlint replay <file>\n       gvlint selftest [-property Cnn]\n       gvlint list")
	os.Exit(2)
}

func seedFromEnv() int64 {
	if s := os.Getenv("VERIF_SEED"); s != "" {
		if v, err := strconv.ParseInt(s, 10, 64); err == nil {
			return v
		}
	}
	return 0
}

func cmdCheck(args []string) int {
	fs := flag.NewFlagSet("check", flag.ExitOnError)
	prop := fs.String("property", "", "property id")
	tier := fs.String("tier", "", "quick|thorough")
	repo := fs.String("repo", "/repo", "repository root")
	verif := fs.String("verif", "/verif", "verif root")
	only := fs.String("only-key", "", "(replay) print only this obligation key")
	_ = fs.Parse(args)
	if *tier == "" {
		*tier = os.Getenv("VERIF_TIER")
	}
	if *tier == "" {
		*tier = "quick"
	}
	c := checks[*prop]
	if c == nil {
		fmt.Printf("unknown property %q\n", *prop)
		return 2
	}
	start := time.Now()
	r := newReport(c.ID, *tier)
	r.Level = c.Level
	r.Explanation = c.Explanation + addedRules[c.ID]
	r.NotDecided = c.NotDecided
	r.Assumptions = append([]string{}, c.Assumptions...)
	r.Assumptions = append(r.Assumptions,
		"go/types, go/ssa and the VTA/CHA call graphs of x/tools v0.29.0 are correct",
		"own code does not use reflect or unsafe to bypass the analysed constructs (checked: neither is imported)",
		"user supplied code linked into goverter (custom enum transformers) and third party packages are outside the claim")

	type res struct {
		p   *Prog
		err error
	}
	mainCh := make(chan res, 1)
	ctrlCh := make(chan res, 1)
	go func() {
		p, err := Load(LoadOpts{Dir: *repo})
		mainCh <- res{p, err}
	}()
	if len(c.Controls) > 0 {
		go func() {
			ov := map[string][]byte{}
			for rel, content := range c.Controls {
				ov[filepath.Join(*repo, rel)] = []byte(content)
			}
			p, err := Load(LoadOpts{Dir: *repo, Overlay: ov})
			ctrlCh <- res{p, err}
		}()
	}
	m := <-mainCh
	if m.err != nil {
		fmt.Printf("UNDECIDED property=%s cannot load /repo: %v\n", c.ID, m.err)
		r.Fatal = append(r.Fatal, "load: "+m.err.Error())
		return r.finish(*verif, start, seedFromEnv())
	}
	p := m.p
	r.Analysed["packages_loaded"] = len(p.All)
	r.Analysed["own_packages"] = len(p.Own)
	r.Analysed["own_functions"] = len(p.Funcs)
	fmt.Printf("analysed: %d packages (%d own), %d own functions, tier=%s\n", len(p.All), len(p.Own), len(p.Funcs), *tier)

	safeRun(c, p, r)

	if len(c.Controls) > 0 {
		cr := <-ctrlCh
		if cr.err != nil {
			r.Fatal = append(r.Fatal, "positive control tree does not load (control source out of date?): "+cr.err.Error())
		} else {
			r.inControl = true
			safeRun(c, cr.p, r)
			r.inControl = false
			for _, rule := range c.ControlRules {
				if st := r.Rules[rule]; st != nil {
					st.Control = fmt.Sprintf("%d violation(s) reported on the control overlay", r.ctrlHits[rule])
				}
				// controls are compared against the main run: the control tree must
				// yield MORE violations of the rule than the real tree
				mainCount := 0
				for _, o := range r.Obls {
					if o.Rule == rule && o.Verdict == "violation" {
						mainCount++
					}
				}
				if r.ctrlHits[rule] <= mainCount {
					r.Fatal = append(r.Fatal, fmt.Sprintf("%s: positive control not detected (rule is blind)", rule))
				}
			}
		}
	}

	if *tier == "thorough" {
		thorough(c, p, r, *repo, *verif)
	}

	if *only != "" {
		for _, o := range r.Obls {
			if o.Key == *only {
				fmt.Printf("replayed obligation %s\n  site=%s pos=%s verdict=%s\n  %s\n  rule: %s\n", o.Key, o.Site, o.Pos, o.Verdict, o.How, r.Rules[o.Rule].Text)
			}
		}
	}
	return r.finish(*verif, start, seedFromEnv())
}

// safeRun turns a panic inside a rule into an undecided result instead of a crash.
func safeRun(c *Check, p *Prog, r *Report) {
	defer func() {
		if e := recover(); e != nil {
			r.inControl = false
			if os.Getenv("GVLINT_DEBUG") != "" {
				debug.PrintStack()
			}
			r.Fatal = append(r.Fatal, fmt.Sprintf("checker panic in rule %s: %v", r.curRule, e))
		}
	}()
	c.Run(p, r)
}

func cmdReplay(args []string) int {
	if len(args) < 1 {
		usage()
	}
	b, err := os.ReadFile(args[0])
	if err != nil {
		fmt.Println(err)
		return 2
	}
	var m map[string]string
	if err := json.Unmarshal(b, &m); err != nil {
		fmt.Println(err)
		return 2
	}
	fmt.Printf("replay: property=%s rule=%s\n  key : %s\n  was : %s — %s\n  rule: %s\n", m["property"], m["rule"], m["key"], m["pos"], m["why"], m["rule_text"])
	rest := []string{"-property", m["property"], "-only-key", m["key"]}
	rest = append(rest, args[1:]...)
	code := cmdCheck(rest)
	if code == 1 {
		fmt.Println("replay: the tree still violates the property (see VIOLATION lines above)")
	}
	return code
}

func has(list []string, s string) bool {
	for _, x := range list {
		if x == s {
			return true
		}
	}
	return false
}

func joinSorted(m map[string]bool) string {
	var s []string
	for k := range m {
		s = append(s, k)
	}
	sort.Strings(s)
	return strings.Join(s, ", ")
}

//go:embed added_rules.json
var addedRulesJSON []byte

// addedRules: per property, the rules added after the seeded rounds 2 and 3 (appended to the explanation in the
// evidence; tools/gen_manifest.py reads the same file for the MANIFEST).
var addedRules = func() map[string]string {
	m := map[string]string{}
	_ = json.Unmarshal(addedRulesJSON, &m)
	return m
}()
