package main

import (
	"fmt"
	"go/ast"
	"go/constant"
	"go/token"
	"go/types"
	"sort"
	"strings"

	"golang.org/x/tools/go/ssa"
)

// ---------------------------------------------------------------------------
// closed universes (F-univ)

// implementersOf lists the named types T of package pkg such that T or *T
// implements iface.
func implementersOf(pkg *types.Package, iface *types.Interface) []*types.TypeName {
	var out []*types.TypeName
	sc := pkg.Scope()
	for _, name := range sc.Names() {
		tn, ok := sc.Lookup(name).(*types.TypeName)
		if !ok || tn.IsAlias() {
			continue
		}
		if _, isIface := tn.Type().Underlying().(*types.Interface); isIface {
			continue
		}
		if types.Implements(tn.Type(), iface) || types.Implements(types.NewPointer(tn.Type()), iface) {
			out = append(out, tn)
		}
	}
	return out
}

// constsOfType lists the package-level constants of pkg whose type is t.
func constsOfType(pkg *types.Package, t types.Type) []*types.Const {
	var out []*types.Const
	sc := pkg.Scope()
	for _, name := range sc.Names() {
		if c, ok := sc.Lookup(name).(*types.Const); ok && types.Identical(c.Type(), t) {
			out = append(out, c)
		}
	}
	return out
}

// switchExclusions: members of a universe that a switch in the named function may
// leave out, each with the reason (audited; part of the trusted base).
var switchExclusions = map[string]map[string]string{
	"xtype.toCode": {
		"Tuple": "a tuple is never the type of a variable, parameter, field or element",
		"Union": "a union occurs only inside constraint interfaces, which goverter never renders as a value type",
		"Alias": "removed by the types.Unalias call at the top of the function (sub-fact re-verified)",
	},
	"xtype.applyTo": {
		"Tuple": "never the type of a value",
		"Union": "only inside constraint interfaces",
		"Alias": "TypeOf/typeOf calls types.Unalias before applyTo; the Named arm passes Underlying(), which is never an alias (sub-fact re-verified: caller calls types.Unalias)",
	},
	"xtype.ZeroValue": {
		"Tuple":     "never the type of a value",
		"Union":     "only inside constraint interfaces",
		"Alias":     "callers pass Type.T, which TypeOf has unaliased, or Underlying()",
		"TypeParam": "ZeroValue is only called when shouldCheckAgainstZero returned true, which requires a Struct/Basic/nillable classification; applyTo gives a type parameter none of them (sub-fact re-verified: every caller is guarded by shouldCheckAgainstZero)",
	},
	"xtype.toCodeBasic": {
		"Invalid":        "an invalid type cannot occur in a package that type-checks",
		"UntypedBool":    "untyped kinds are never the type of a variable",
		"UntypedInt":     "untyped kinds are never the type of a variable",
		"UntypedRune":    "untyped kinds are never the type of a variable",
		"UntypedFloat":   "untyped kinds are never the type of a variable",
		"UntypedComplex": "untyped kinds are never the type of a variable",
		"UntypedString":  "untyped kinds are never the type of a variable",
		"UntypedNil":     "untyped kinds are never the type of a variable",
	},
}

// auditedPanics: panic sites discharged by an argument that is not switch
// exhaustiveness; every row names sub-facts that the checker re-verifies.
type panicAudit struct {
	why   string
	facts []string // names of sub-fact verifiers
}

var auditedPanics = map[string]panicAudit{
	"generator.(*generator).buildMethod|case method.ArgUseInterface":      {"converter methods are parsed with ParseOpts.Converter == nil, and types.Identical(x, nil) is false, so no argument of a converter method is classified as interface", []string{"parseMethodConverterNil"}},
	"generator.(*generator).buildMethod|case method.ArgUseMultiSource":    {"method.Parse rejects len(MultiSources) > 0 unless ParseOpts.ParamsMultiSource, which is never set", []string{"multiSourceNeverSet", "parseRejectsMultiSource"}},
	"generator.(*generator).CallMethod|case method.ArgUseMultiSource":     {"method.Parse rejects len(MultiSources) > 0 unless ParseOpts.ParamsMultiSource, which is never set", []string{"multiSourceNeverSet", "parseRejectsMultiSource"}},
	"generator.(*generator).delegateMethod|case method.ArgUseMultiSource": {"method.Parse rejects len(MultiSources) > 0 unless ParseOpts.ParamsMultiSource, which is never set", []string{"multiSourceNeverSet", "parseRejectsMultiSource"}},
	"generator.(*generator).CallMethod|case method.ArgUseTarget":          {"only config.parseMethod sets ParseOpts.UpdateParam; such definitions are registered through Index.RegisterUpdate, which Index.Get/Has never read, so they are never passed to CallMethod", []string{"updateParamOnlyParseMethod", "updateRegisteredSeparately"}},
	"generator.(*generator).delegateMethod|case method.ArgUseTarget":      {"delegateMethod receives definitions from the extend index only; extend functions are parsed without UpdateParam", []string{"updateParamOnlyParseMethod"}},
}

// ---------------------------------------------------------------------------

func c13R1(p *Prog, r *Report) {
	r.Rule("C13.R1", "every explicit panic() in own code is unreachable: it is the default/fall-through of a switch that covers its closed universe (implementers of types.Type / sealed interfaces, typed BasicKinds, ChanDir, ArgUse — minus audited exclusions), or guarded by a fact established at every caller, or an audited arm whose sub-facts are re-verified", 10)
	n := 0
	for _, cs := range p.Calls() {
		b, ok := cs.Callee.(*types.Builtin)
		if !ok || b.Name() != "panic" || cs.Encl == nil {
			continue
		}
		n++
		fi := cs.Encl
		info := cs.Pkg.TypesInfo
		pos := p.PosStr(cs.Call.Pos())
		guards := guardsOf(cs.Stack, cs.Call)
		disc := "unguarded"
		var inner *Guard
		if len(guards) > 0 {
			inner = &guards[len(guards)-1]
			if inner.Cond != nil {
				disc = "case " + exprString(inner.Cond)
				if inner.Tag == nil {
					if _, isCase := inner.Node.(*ast.CaseClause); !isCase {
						disc = "if " + exprString(inner.Cond)
						if inner.Neg {
							disc = "if not " + exprString(inner.Cond)
						}
					}
				}
			} else {
				disc = "default"
			}
		}
		// a panic that directly follows a switch/if-chain at the end of a block: "after switch"
		var prevSwitch ast.Stmt
		if len(cs.Stack) >= 2 {
			if es, ok := cs.Stack[len(cs.Stack)-1].(*ast.ExprStmt); ok {
				if list := stmtList(cs.Stack[len(cs.Stack)-2]); list != nil {
					for i, s := range list {
						if s == es && i > 0 {
							switch list[i-1].(type) {
							case *ast.SwitchStmt, *ast.TypeSwitchStmt, *ast.IfStmt:
								prevSwitch = list[i-1]
							}
						}
					}
				}
			}
		}
		site := fi.Name() + "/panic " + disc
		anchor := p.anchorFor(fi, fnPartsOf(append(mapKeys(auditedPanics), mapKeys(switchExclusions)...)))
		key := anchor + "|" + disc

		// (1) default of / after a switch
		var sw ast.Stmt
		if inner != nil && inner.Cond == nil {
			if cc, ok := inner.Node.(*ast.CaseClause); ok {
				sw = switchOfClause(cs.Stack, cc)
			}
		} else if prevSwitch != nil {
			// the panic is reached only by falling out of prevSwitch
			sw = prevSwitch
			if disc == "unguarded" || strings.HasPrefix(disc, "case") {
				site = fi.Name() + "/panic after " + stmtKind(prevSwitch) + " " + disc
				key = anchor + "|after " + stmtKind(prevSwitch)
			}
		}
		if sw != nil {
			isTagless := false
			if s2, ok := sw.(*ast.SwitchStmt); ok && s2.Tag == nil {
				isTagless = true
			}
			if _, ok := sw.(*ast.IfStmt); ok || isTagless {
				// ZeroValue: if-chain / tagless switch over Info() masks of a *types.Basic
				if ok2, how := basicInfoChainCovers(p, fi, sw); ok2 {
					r.OK(site, pos, how)
				} else {
					r.Bad(site, pos, "panic after an if-chain that does not provably cover all cases: "+how)
				}
				continue
			}
			missing, universe, how, err := switchMissing(p, fi, sw)
			if err != "" {
				r.Bad(site, pos, "cannot establish exhaustiveness of the governing switch: "+err)
				continue
			}
			// a switch split over a private helper: the helper is only called from the default arm of a type switch
			// over the same value, so only what both switches leave out can reach the panic
			if len(missing) > 0 && anchor != fi.Name() {
				if outer := outerSwitchMissing(p, fi, sw); outer != nil {
					var both []string
					for _, m := range missing {
						if outer[m] {
							both = append(both, m)
						}
					}
					missing = both
					how += ", continued from the switch in " + anchor
				}
			}
			var unexcused []string
			for _, m := range missing {
				if why, ok := switchExclusions[anchor][m]; ok {
					r.Tables = append(r.Tables, fmt.Sprintf("C13.R1 exclusion %s/%s — %s", anchor, m, why))
				} else {
					unexcused = append(unexcused, m)
				}
			}
			if len(unexcused) > 0 {
				r.Bad(site, pos, fmt.Sprintf("the switch over %s has no arm for %s: such a value reaches panic()", universe, strings.Join(unexcused, ", ")))
				continue
			}
			// re-verified sub-facts of the exclusions
			if bad := verifyExclusionFacts(p, fi, missing); bad != "" {
				r.Bad(site, pos, bad)
				continue
			}
			r.OK(site, pos, "switch is exhaustive over "+universe+" ("+how+")")
			continue
		}
		// (2) audited arms
		if a, ok := auditedPanics[key]; ok {
			bad := ""
			for _, f := range a.facts {
				if msg := subFacts[f](p); msg != "" {
					bad = msg
					break
				}
			}
			if bad != "" {
				r.Bad(site, pos, "audited arm, but its sub-fact no longer holds: "+bad)
			} else {
				r.OK(site, pos, "audited: "+a.why+" (sub-facts re-verified: "+strings.Join(a.facts, ", ")+")")
				r.Tables = append(r.Tables, "C13.R1 audited panic "+key+" — "+a.why)
			}
			continue
		}
		// (3) builder.ToString
		if p.inRegion("builder.ToString", fi) && inner != nil && !inner.Neg && isLenZeroTest(info, inner.Cond, "Path") {
			if bad := toStringCallersLift(p, fi); bad != "" {
				r.Bad(site, pos, bad)
			} else {
				r.OK(site, pos, "every caller passes the result of (*Error).Lift with at least one path element")
			}
			continue
		}
		// (4) findAllFields
		if fi.Name() == "xtype.(Type).findAllFields" && inner != nil && !inner.Neg && strings.Contains(exprString(inner.Cond), "Struct") {
			bads := structFactCallers(p)
			if len(bads) > 0 {
				r.Bad(site, pos, "a caller can pass a non-struct type: "+strings.Join(bads, "; "))
			} else {
				r.OK(site, pos, "every call of FindField/FindExactField/findAllFields passes a type proven to be a struct on all paths")
			}
			continue
		}
		r.Bad(site, pos, "explicit panic that is neither the default of an exhaustive switch nor an audited unreachable arm")
	}
	r.Analysed["panic_sites"] = n
}

func stmtList(n ast.Node) []ast.Stmt {
	switch x := n.(type) {
	case *ast.BlockStmt:
		return x.List
	case *ast.CaseClause:
		return x.Body
	}
	return nil
}

func stmtKind(s ast.Stmt) string {
	switch s.(type) {
	case *ast.SwitchStmt:
		return "switch"
	case *ast.TypeSwitchStmt:
		return "type switch"
	case *ast.IfStmt:
		return "if-chain"
	}
	return "stmt"
}

func switchOfClause(stack []ast.Node, cc *ast.CaseClause) ast.Stmt {
	for i, n := range stack {
		if n == cc && i >= 2 {
			if s, ok := stack[i-2].(ast.Stmt); ok {
				return s
			}
		}
	}
	return nil
}

// switchMissing returns the members of the switch's universe that have no arm.
func switchMissing(p *Prog, fi *FuncInfo, sw ast.Stmt) (missing []string, universe, how, err string) {
	info := fi.Pkg.TypesInfo
	switch s := sw.(type) {
	case *ast.TypeSwitchStmt:
		var x ast.Expr
		switch a := s.Assign.(type) {
		case *ast.AssignStmt:
			x = a.Rhs[0].(*ast.TypeAssertExpr).X
		case *ast.ExprStmt:
			x = a.X.(*ast.TypeAssertExpr).X
		}
		t := info.TypeOf(x)
		iface, ok := t.Underlying().(*types.Interface)
		if !ok {
			return nil, "", "", "type switch on a non-interface"
		}
		nt := namedOf(t)
		if nt == nil {
			return nil, "", "", "type switch on an unnamed interface (open universe)"
		}
		var impls []*types.TypeName
		switch {
		case isNamed(t, "go/types", "Type"):
			impls = implementersOf(nt.Obj().Pkg(), iface)
		case p.IsOwn(nt.Obj().Pkg()) && hasUnexportedMethod(iface):
			for _, o := range p.Own {
				impls = append(impls, implementersOf(o.Types, iface)...)
			}
		default:
			return nil, "", "", "interface " + t.String() + " is not sealed (open universe)"
		}
		covered := map[string]bool{}
		for _, c := range s.Body.List {
			for _, e := range c.(*ast.CaseClause).List {
				if n := namedOf(info.TypeOf(e)); n != nil {
					covered[n.Obj().Name()] = true
				}
			}
		}
		for _, tn := range impls {
			if !covered[tn.Name()] {
				missing = append(missing, tn.Name())
			}
		}
		sort.Strings(missing)
		return missing, fmt.Sprintf("the %d implementers of %s", len(impls), nt.Obj().Pkg().Name()+"."+nt.Obj().Name()), fmt.Sprintf("%d arms", len(covered)), ""
	case *ast.SwitchStmt:
		if s.Tag == nil {
			return nil, "", "", "tagless switch"
		}
		t := info.TypeOf(s.Tag)
		nt, ok := types.Unalias(t).(*types.Named)
		if !ok || nt.Obj().Pkg() == nil {
			return nil, "", "", "switch tag has no named constant type"
		}
		consts := constsOfType(nt.Obj().Pkg(), nt)
		if len(consts) == 0 {
			return nil, "", "", "no constants of type " + nt.String()
		}
		covered := map[string]bool{}
		for _, c := range s.Body.List {
			for _, e := range c.(*ast.CaseClause).List {
				if tv, ok := info.Types[e]; ok && tv.Value != nil {
					covered[tv.Value.ExactString()] = true
				}
			}
		}
		seenVal := map[string]bool{}
		for _, c := range consts {
			v := c.Val().ExactString()
			if covered[v] || seenVal[v] {
				continue
			}
			// a later constant with the same value (Byte = Uint8) is not a separate member
			missing = append(missing, c.Name())
			seenVal[v] = true
		}
		// drop names whose value is covered through an alias constant
		sort.Strings(missing)
		return missing, fmt.Sprintf("the %d constants of %s", len(consts), nt.Obj().Pkg().Name()+"."+nt.Obj().Name()), fmt.Sprintf("%d values covered", len(covered)), ""
	}
	return nil, "", "", "unsupported statement"
}

func hasUnexportedMethod(i *types.Interface) bool {
	for k := 0; k < i.NumMethods(); k++ {
		if !i.Method(k).Exported() {
			return true
		}
	}
	return false
}

// verifyExclusionFacts re-checks what the exclusion reasons claim.
func verifyExclusionFacts(p *Prog, fi *FuncInfo, missing []string) string {
	info := fi.Pkg.TypesInfo
	for _, m := range missing {
		switch {
		case m == "Alias" && fi.Name() == "xtype.toCode":
			if len(findCalls(info, fi.Decl, "go/types", "", "Unalias")) == 0 {
				return "toCode no longer calls types.Unalias before its type switch: an alias type reaches panic()"
			}
		case m == "Alias" && fi.Name() == "xtype.applyTo":
			// every caller outside applyTo must call types.Unalias
			for _, cs := range p.Calls() {
				f, ok := cs.Callee.(*types.Func)
				if !ok || f != fi.Obj || cs.Encl == nil || cs.Encl == fi {
					continue
				}
				if len(findCalls(cs.Pkg.TypesInfo, cs.Encl.Decl, "go/types", "", "Unalias")) == 0 {
					return "caller " + cs.Encl.Name() + " of applyTo does not call types.Unalias"
				}
			}
		case m == "TypeParam" && fi.Name() == "xtype.ZeroValue":
			for _, cs := range p.Calls() {
				f, ok := cs.Callee.(*types.Func)
				if !ok || f != fi.Obj || cs.Encl == nil || cs.Encl == fi || p.inRegion("xtype.ZeroValue", cs.Encl) {
					continue
				}
				guarded := p.guardedSite(cs.Encl, cs.Stack, cs.Call, func(info *types.Info, g Guard) bool {
					return g.Cond != nil && !g.Neg && len(findCalls(info, g.Cond, modPath+"/builder", "", "shouldCheckAgainstZero")) > 0
				}, 2)
				if !guarded {
					// control dependence instead of syntax: the call's block is dominated by an edge on which
					// shouldCheckAgainstZero(…) is known true (covers `if x == nil || !should(…) { return }`)
					if sf := p.SSAFunc(cs.Encl); sf != nil {
						allInstrs(sf, true, func(in ssa.Instruction) {
							c, ok := in.(ssa.CallInstruction)
							if !ok || in.Pos() != cs.Call.Lparen || ssaCalleeObj(c) == nil || ssaCalleeObj(c).Origin() != fi.Obj.Origin() {
								return
							}
							for _, f := range factsAt(in.Block()) {
								if fc, ok := f.(*ssa.Call); ok && ssaCalleeObj(fc) != nil && isFunc(ssaCalleeObj(fc), modPath+"/builder", "", "shouldCheckAgainstZero") {
									guarded = true
								}
							}
						})
					}
				}
				if !guarded {
					return "call of xtype.ZeroValue at " + p.PosStr(cs.Call.Pos()) + " is not guarded by shouldCheckAgainstZero: a type parameter (or another unclassified type) can reach its panic"
				}
			}
		}
	}
	return ""
}

// basicInfoChainCovers: `if x.Info()&types.IsA != 0 {…} else if … ` chain inside a
// *types.Basic arm: evaluate the masks for every typed basic kind.
func basicInfoChainCovers(p *Prog, fi *FuncInfo, st ast.Stmt) (bool, string) {
	info := fi.Pkg.TypesInfo
	var masks types.BasicInfo
	kinds := map[types.BasicKind]bool{}
	// isInfoCall: e is x.Info() or a local variable defined as x.Info()
	isInfoCall := func(e ast.Expr) bool {
		if callTo(info, e, "go/types", "Basic", "Info") != nil {
			return true
		}
		if id, ok := ast.Unparen(e).(*ast.Ident); ok {
			if def := localDef(info, fi.Decl, info.ObjectOf(id)); def != nil && callTo(info, def, "go/types", "Basic", "Info") != nil {
				return true
			}
		}
		return false
	}
	isKindCall := func(e ast.Expr) bool {
		if callTo(info, e, "go/types", "Basic", "Kind") != nil {
			return true
		}
		if id, ok := ast.Unparen(e).(*ast.Ident); ok {
			if def := localDef(info, fi.Decl, info.ObjectOf(id)); def != nil && callTo(info, def, "go/types", "Basic", "Kind") != nil {
				return true
			}
		}
		return false
	}
	addCond := func(c ast.Expr) string {
		for _, d := range disjuncts(c) {
			b, ok := ast.Unparen(d).(*ast.BinaryExpr)
			if !ok {
				return "unrecognised condition " + exprString(d)
			}
			if b.Op == token.NEQ {
				and, ok := ast.Unparen(b.X).(*ast.BinaryExpr)
				if ok && and.Op == token.AND {
					if tv, ok := info.Types[and.Y]; ok && tv.Value != nil {
						if v, ok := constant.Int64Val(tv.Value); ok {
							if z, ok := constInt(info, b.Y); ok && z == 0 && isInfoCall(and.X) {
								masks |= types.BasicInfo(v)
								continue
							}
						}
					}
				}
			}
			if b.Op == token.EQL && isKindCall(b.X) {
				if v, ok := constInt(info, b.Y); ok {
					kinds[types.BasicKind(v)] = true
					continue
				}
			}
			return "unrecognised condition " + exprString(d)
		}
		return ""
	}
	switch x := st.(type) {
	case *ast.IfStmt:
		for cur := x; cur != nil; {
			if !endsInExit(cur.Body) {
				return false, "an arm of the chain does not return"
			}
			if m := addCond(cur.Cond); m != "" {
				return false, m
			}
			next, _ := cur.Else.(*ast.IfStmt)
			if cur.Else != nil && next == nil {
				return true, "chain ends in an unconditional else"
			}
			cur = next
		}
	case *ast.SwitchStmt:
		if x.Tag != nil {
			return false, "switch with a tag"
		}
		for _, c := range x.Body.List {
			cc := c.(*ast.CaseClause)
			if len(cc.List) == 0 {
				if len(cc.Body) > 0 {
					if _, isRet := cc.Body[len(cc.Body)-1].(*ast.ReturnStmt); isRet {
						return true, "switch has a returning default"
					}
				}
				continue
			}
			if len(cc.Body) == 0 {
				return false, "an arm of the switch falls out of it"
			}
			if _, isRet := cc.Body[len(cc.Body)-1].(*ast.ReturnStmt); !isRet {
				return false, "an arm of the switch does not return"
			}
			for _, e := range cc.List {
				if m := addCond(e); m != "" {
					return false, m
				}
			}
		}
	default:
		return false, "unsupported statement"
	}
	var missing []string
	for k := types.Bool; k <= types.UnsafePointer; k++ {
		b := types.Typ[k]
		if b.Info()&masks == 0 && !kinds[k] {
			missing = append(missing, b.Name())
		}
	}
	if len(missing) > 0 {
		return false, "no branch handles basic kind(s) " + strings.Join(missing, ", ")
	}
	return true, fmt.Sprintf("the Info()/Kind() tests cover all %d typed basic kinds (evaluated with go/types)", int(types.UnsafePointer-types.Bool)+1)
}

func isLenZeroTest(info *types.Info, e ast.Expr, field string) bool {
	b, ok := ast.Unparen(e).(*ast.BinaryExpr)
	if !ok || b.Op != token.EQL {
		return false
	}
	call, ok := ast.Unparen(b.X).(*ast.CallExpr)
	if !ok || len(call.Args) != 1 {
		return false
	}
	if bi, ok := calleeObj(info, call).(*types.Builtin); !ok || bi.Name() != "len" {
		return false
	}
	sel, ok := ast.Unparen(call.Args[0]).(*ast.SelectorExpr)
	return ok && sel.Sel.Name == field
}

// toStringCallersLift: each caller of builder.ToString passes a value that is the
// result of (*Error).Lift(≥1 argument).
func toStringCallersLift(p *Prog, fi *FuncInfo) string {
	n := 0
	for _, f := range p.Funcs {
		sf := p.SSAFunc(f)
		for _, c := range callsIn(sf, true, func(o *types.Func) bool { return o == fi.Obj }) {
			n++
			arg := c.Common().Args[0]
			okArg := true
			var check func(v ssa.Value, depth int) bool
			check = func(v ssa.Value, depth int) bool {
				if depth > 4 {
					return false
				}
				switch x := v.(type) {
				case *ssa.Call:
					o := ssaCalleeObj(x)
					if o != nil && isFunc(o, modPath+"/builder", "Error", "Lift") {
						// variadic: args[1] is the slice; require ≥1 element
						if sl, ok := x.Call.Args[1].(*ssa.Slice); ok {
							if al, ok := sl.X.(*ssa.Alloc); ok {
								if arr, ok := al.Type().(*types.Pointer).Elem().(*types.Array); ok && arr.Len() >= 1 {
									return true
								}
							}
						}
						return false
					}
				case *ssa.Phi:
					for _, e := range x.Edges {
						if !check(e, depth+1) {
							return false
						}
					}
					return true
				}
				return false
			}
			okArg = check(arg, 0)
			if !okArg {
				return fmt.Sprintf("caller %s (%s) passes an error that is not the result of Lift(≥1 element): ToString panics on an empty path", f.Name(), p.PosStr(c.Pos()))
			}
		}
	}
	if n == 0 {
		return "no caller of builder.ToString found (anchor)"
	}
	return ""
}

// ---------------------------------------------------------------------------
// sub-facts of the audited rows

var subFacts = map[string]func(p *Prog) string{
	// config.parseMethod's ParseOpts literal has Converter: nil (or no Converter key)
	"parseMethodConverterNil": func(p *Prog) string {
		fi := p.Func("config.parseMethod")
		if fi == nil {
			return "config.parseMethod not found"
		}
		info := fi.Pkg.TypesInfo
		msg := "no ParseOpts literal in config.parseMethod"
		ast.Inspect(fi.Decl, func(n ast.Node) bool {
			cl, ok := n.(*ast.CompositeLit)
			if !ok || !isNamed(info.TypeOf(cl), modPath+"/method", "ParseOpts") {
				return true
			}
			msg = ""
			if v := compositeField(cl, "Converter"); v != nil {
				if id, ok := ast.Unparen(v).(*ast.Ident); !ok || id.Name != "nil" {
					msg = "config.parseMethod passes a Converter type to method.Parse: an argument of a converter method can be classified as interface and reach buildMethod's panic"
				}
			}
			return true
		})
		return msg
	},
	"multiSourceNeverSet": func(p *Prog) string {
		return fieldNeverSetTrue(p, modPath+"/method", "ParseOpts", "ParamsMultiSource")
	},
	"parseRejectsMultiSource": func(p *Prog) string {
		fi := p.Func("method.Parse")
		if fi == nil {
			return "method.Parse not found"
		}
		info := fi.Pkg.TypesInfo
		ok := false
		test := func(e ast.Expr) bool {
			return mentionsField(info, e, modPath+"/method", "ParseOpts", "ParamsMultiSource") && mentionsField(info, e, modPath+"/method", "Parameters", "MultiSources")
		}
		for _, f := range p.Region("method.Parse") {
			f := f
			ast.Inspect(f.Decl, func(n ast.Node) bool {
				var cond ast.Expr
				var body []ast.Stmt
				switch x := n.(type) {
				case *ast.CaseClause:
					if len(x.List) == 1 {
						cond, body = x.List[0], x.Body
					}
				case *ast.IfStmt:
					cond, body = x.Cond, x.Body.List
				}
				if cond != nil && test(cond) && clauseRejects(info, body) && helperResultRejected(p, fi, f) {
					ok = true
				}
				return true
			})
		}
		if !ok {
			return "method.Parse no longer rejects additional source parameters (`!opts.ParamsMultiSource && len(MultiSources) > 0` → error)"
		}
		return ""
	},
	"updateParamOnlyParseMethod": func(p *Prog) string {
		bad := ""
		for _, fi := range p.Funcs {
			info := fi.Pkg.TypesInfo
			ast.Inspect(fi.Decl, func(n ast.Node) bool {
				switch x := n.(type) {
				case *ast.CompositeLit:
					if isNamed(info.TypeOf(x), modPath+"/method", "ParseOpts") && compositeField(x, "UpdateParam") != nil && fi.Name() != "config.parseMethod" {
						bad = fi.Name() + " sets ParseOpts.UpdateParam"
					}
				case *ast.AssignStmt:
					for _, l := range x.Lhs {
						if isFieldSel(info, l, modPath+"/method", "ParseOpts", "UpdateParam") {
							bad = fi.Name() + " assigns ParseOpts.UpdateParam"
						}
					}
				}
				return true
			})
		}
		return bad
	},
	"updateRegisteredSeparately": func(p *Prog) string {
		// setupGenerator: the Register call is on the !UpdateTarget side
		fi := p.Func("generator.setupGenerator")
		if fi == nil {
			return "generator.setupGenerator not found"
		}
		info := fi.Pkg.TypesInfo
		bad := ""
		n := 0
		for _, rf := range p.Region("generator.setupGenerator") {
			walkStack(rf.Decl, func(nn ast.Node, stack []ast.Node) bool {
				call, ok := nn.(*ast.CallExpr)
				if !ok {
					return true
				}
				fn, ok := calleeObj(info, call).(*types.Func)
				if !ok || recvTypeName(fn) != "Index" || fn.Name() != "Register" {
					return true
				}
				n++
				okGuard := false
				for _, g := range guardsOf(stack, call) {
					if g.Cond == nil || !mentionsField(info, g.Cond, modPath+"/method", "Parameters", "UpdateTarget") {
						continue
					}
					// either on the not-taken side of `x.UpdateTarget`, or on the taken side of `!x.UpdateTarget`
					_, negated := ast.Unparen(g.Cond).(*ast.UnaryExpr)
					if g.Neg != negated {
						okGuard = true
					}
				}
				if !okGuard {
					// control dependence (covers a tagless switch whose default arm registers): the call's block
					// is dominated by an edge on which <x>.UpdateTarget is false
					if sf := p.SSAFunc(rf); sf != nil {
						allInstrs(sf, true, func(in ssa.Instruction) {
							if in.Pos() != call.Lparen {
								return
							}
							for _, f := range factsAt(in.Block()) {
								if nf, isNeg := f.(negFact); isNeg && loadsField(nf.Value, "UpdateTarget") {
									okGuard = true
								}
							}
						})
					}
				}
				if !okGuard {
					bad = "setupGenerator registers a method in the exact index without excluding UpdateTarget methods"
				}
				return true
			})
		}
		if n == 0 {
			return "no Index.Register call in setupGenerator"
		}
		// Get / Has read only Exact
		for _, k := range []string{"method.(*Index).Get", "method.(*Index).Has"} {
			f := p.Func(k)
			if f == nil {
				return k + " not found"
			}
			if mentionsField(f.Pkg.TypesInfo, f.Decl, modPath+"/method", "Index", "Update") {
				bad = k + " reads Index.Update: update methods become callable"
			}
		}
		return bad
	},
}

// fieldNeverSetTrue: no composite literal or assignment in own code gives the field a value.
func fieldNeverSetTrue(p *Prog, pkgPath, typ, field string) string {
	bad := ""
	for _, fi := range p.Funcs {
		info := fi.Pkg.TypesInfo
		ast.Inspect(fi.Decl, func(n ast.Node) bool {
			switch x := n.(type) {
			case *ast.CompositeLit:
				if isNamed(info.TypeOf(x), pkgPath, typ) && compositeField(x, field) != nil {
					bad = fi.Name() + " sets " + typ + "." + field
				}
			case *ast.AssignStmt:
				for _, l := range x.Lhs {
					if isFieldSel(info, l, pkgPath, typ, field) {
						bad = fi.Name() + " assigns " + typ + "." + field
					}
				}
			}
			return true
		})
	}
	return bad
}

// ---------------------------------------------------------------------------
// struct-fact analysis (findAllFields' precondition)

// provenStructParams: (function, parameter index) pairs for which every caller is
// required to prove the fact in turn.
var structFactParams = map[string]int{
	"xtype.FindExactField":       0,
	"xtype.FindField":            2,
	"builder.parseAutoMap":       1,
	"builder.mapField":           4,
	"builder.(*Struct).Assign":   4,
	"xtype.(Type).findAllFields": -1, // receiver
}

// structFactCallers checks all calls of the functions that (transitively) require
// a struct-typed *xtype.Type argument.
func structFactCallers(p *Prog) []string {
	var bads []string
	targets := map[*types.Func]int{}
	for k, idx := range structFactParams {
		if fi := p.Func(k); fi != nil {
			targets[fi.Obj] = idx
		}
	}
	for _, fi := range p.Funcs {
		sf := p.SSAFunc(fi)
		if sf == nil {
			continue
		}
		var visit func(f *ssa.Function)
		visit = func(f *ssa.Function) {
			for _, b := range f.Blocks {
				for _, in := range b.Instrs {
					c, ok := in.(ssa.CallInstruction)
					if !ok {
						continue
					}
					o := ssaCalleeObj(c)
					if o == nil {
						continue
					}
					idx, isT := targets[o]
					if !isT {
						continue
					}
					var arg ssa.Value
					args := c.Common().Args
					if idx == -1 {
						arg = args[0]
					} else {
						// method calls carry the receiver as args[0]
						off := 0
						if o.Type().(*types.Signature).Recv() != nil && !c.Common().IsInvoke() {
							off = 1
						}
						arg = args[idx+off]
					}
					if ok, why := provenStruct(p, fi, arg, b, 0, map[ssa.Value]bool{}); !ok {
						bads = append(bads, fmt.Sprintf("%s (%s): %s", fi.Name(), p.PosStr(c.Pos()), why))
					}
				}
			}
			for _, a := range f.AnonFuncs {
				visit(a)
			}
		}
		visit(sf)
	}
	// Struct.Assign is also reached through the Builder interface from the dispatchers,
	// which call it only after Struct.Matches (source.Struct && target.Struct):
	if fi := p.Func("builder.(*Struct).Matches"); fi != nil {
		if !mentionsField(fi.Pkg.TypesInfo, fi.Decl, modPath+"/xtype", "Type", "Struct") {
			bads = append(bads, "builder.(*Struct).Matches no longer tests source.Struct")
		}
	} else {
		bads = append(bads, "builder.(*Struct).Matches not found")
	}
	return bads
}

// provenStruct: v (a *xtype.Type or xtype.Type value) has Struct == true at block use.
func provenStruct(p *Prog, fi *FuncInfo, v ssa.Value, use *ssa.BasicBlock, depth int, seen map[ssa.Value]bool) (bool, string) {
	if depth > 6 {
		return false, "proof too deep"
	}
	if seen[v] {
		return true, "" // cycle through a loop phi: the other operands decide
	}
	seen[v] = true
	// a dominating true edge of a test reading v.Struct
	isStructTest := func(cond ssa.Value) bool { return readsFieldOf(cond, v, "Struct") }
	if dominatedByEdge(use, true, isStructTest) {
		return true, ""
	}
	// negated form: `if !v.Struct { return }` → use dominated by the false edge of (!v.Struct)
	if dominatedByEdge(use, false, func(c ssa.Value) bool {
		u, ok := c.(*ssa.UnOp)
		return ok && u.Op == token.NOT && readsFieldOf(u.X, v, "Struct")
	}) {
		return true, ""
	}
	switch x := v.(type) {
	case *ssa.Parameter:
		// parameter of a function in the precondition table
		sig := x.Parent().Signature
		fnObj, _ := x.Parent().Object().(*types.Func)
		if fnObj != nil {
			if idx, ok := structFactParams[funcKey(fnObj)]; ok {
				pi := -1
				off := 0
				if sig.Recv() != nil {
					off = 1
				}
				for i, prm := range x.Parent().Params {
					if prm == x {
						pi = i - off
					}
				}
				if pi == idx {
					return true, ""
				}
			}
		}
		return false, "parameter " + x.Name() + " of " + x.Parent().Name() + " carries no struct precondition"
	case *ssa.Call:
		o := ssaCalleeObj(x)
		if o != nil && isFunc(o, modPath+"/xtype", "", "TypeOf") {
			if _, ok := x.Call.Args[0].Type().(*types.Pointer); ok {
				if isNamed(x.Call.Args[0].Type(), "go/types", "Struct") {
					return true, ""
				}
			}
			// MakeInterface(*types.Struct)
			if mi, ok := x.Call.Args[0].(*ssa.MakeInterface); ok && isNamed(mi.X.Type(), "go/types", "Struct") {
				return true, ""
			}
			return false, "xtype.TypeOf of a value not statically a *types.Struct"
		}
		return false, "result of " + calleeName(x) + " is not known to be a struct type"
	case *ssa.Phi:
		for i, e := range x.Edges {
			pred := x.Block().Preds[i]
			// the edge itself may be the true edge of the struct test (empty case bodies are fused away)
			if ifi, ok := pred.Instrs[len(pred.Instrs)-1].(*ssa.If); ok && len(pred.Succs) == 2 && pred.Succs[0] == x.Block() && pred.Succs[1] != x.Block() {
				if readsFieldOf(ifi.Cond, e, "Struct") {
					continue
				}
			}
			if ok, why := provenStruct(p, fi, e, pred, depth+1, seen); !ok {
				return false, fmt.Sprintf("value arriving from block %d: %s", pred.Index, why)
			}
		}
		return true, ""
	case *ssa.UnOp:
		if x.Op == token.MUL {
			if prm, ok := x.X.(*ssa.Parameter); ok {
				return provenStruct(p, fi, prm, use, depth+1, seen)
			}
			if ph, ok := x.X.(*ssa.Phi); ok {
				return provenStruct(p, fi, ph, use, depth+1, seen)
			}
			if inner, ok := x.X.(*ssa.UnOp); ok && inner.Op == token.MUL {
				return provenStruct(p, fi, inner, use, depth+1, seen)
			}
			if fa, ok := x.X.(*ssa.FieldAddr); ok && fieldName(fa) == "Type" && isNamed(fa.X.Type(), modPath+"/xtype", "FieldSources") {
				if bad := fieldSourcesFact(p); bad != "" {
					return false, bad
				}
				return true, ""
			}
			// load of a field: x.PointerInner with a dominating test of x.PointerInner.Struct
			if fa, ok := x.X.(*ssa.FieldAddr); ok {
				name := fieldName(fa)
				if dominatedByEdge(use, true, func(c ssa.Value) bool { return readsPathField(c, fa.X, name, "Struct") }) {
					return true, ""
				}
				// SimpleStructField.Type / StructField.Type carry no fact
				return false, "field " + name + " is not tested for .Struct"
			}
			// load of the receiver copy (value receiver spilled): *t where t is Alloc storing a parameter
			if al, ok := x.X.(*ssa.Alloc); ok && al.Referrers() != nil {
				for _, r := range *al.Referrers() {
					if st, ok := r.(*ssa.Store); ok && st.Addr == al {
						return provenStruct(p, fi, st.Val, use, depth+1, seen)
					}
				}
			}
		}
	case *ssa.Alloc:
		// &t for a value receiver copy
		if x.Referrers() != nil {
			for _, r := range *x.Referrers() {
				if st, ok := r.(*ssa.Store); ok && st.Addr == x {
					return provenStruct(p, fi, st.Val, use, depth+1, seen)
				}
			}
		}
	}
	return false, "cannot prove that " + v.Name() + " is a struct type here"
}

func fieldName(fa *ssa.FieldAddr) string {
	pt, ok := fa.X.Type().Underlying().(*types.Pointer)
	if !ok {
		return ""
	}
	st, ok := pt.Elem().Underlying().(*types.Struct)
	if !ok {
		return ""
	}
	return st.Field(fa.Field).Name()
}

// readsFieldOf: cond (possibly a conjunction evaluated earlier) is a load of base.<field>.
func readsFieldOf(cond ssa.Value, base ssa.Value, field string) bool {
	switch x := cond.(type) {
	case *ssa.UnOp:
		if x.Op == token.MUL {
			if fa, ok := x.X.(*ssa.FieldAddr); ok && fieldName(fa) == field && sameBase(fa.X, base) {
				return true
			}
		}
	case *ssa.Field:
		if st, ok := x.X.Type().Underlying().(*types.Struct); ok && st.Field(x.Field).Name() == field && sameBase(x.X, base) {
			return true
		}
	}
	return false
}

// readsPathField: cond loads base.<f1>.<field>.
func readsPathField(cond ssa.Value, base ssa.Value, f1, field string) bool {
	u, ok := cond.(*ssa.UnOp)
	if !ok || u.Op != token.MUL {
		return false
	}
	fa, ok := u.X.(*ssa.FieldAddr)
	if !ok || fieldName(fa) != field {
		return false
	}
	l, ok := fa.X.(*ssa.UnOp)
	if !ok || l.Op != token.MUL {
		return false
	}
	fa2, ok := l.X.(*ssa.FieldAddr)
	return ok && fieldName(fa2) == f1 && sameBase(fa2.X, base)
}

func sameBase(a, b ssa.Value) bool {
	if a == b {
		return true
	}
	// loads of the same alloc (spilled receiver)
	ua, ok1 := a.(*ssa.UnOp)
	ub, ok2 := b.(*ssa.UnOp)
	if ok1 && ok2 && ua.Op == token.MUL && ub.Op == token.MUL && ua.X == ub.X {
		if _, isAlloc := ua.X.(*ssa.Alloc); isAlloc {
			return true
		}
	}
	// a is Alloc (address of value receiver copy), b is the load of it or vice versa
	if al, ok := a.(*ssa.Alloc); ok && ok2 && ub.X == al {
		return true
	}
	if al, ok := b.(*ssa.Alloc); ok && ok1 && ua.X == al {
		return true
	}
	return false
}

var fieldSourcesMemo *string

// fieldSourcesFact: every xtype.FieldSources value built in own code gets a Type that is proven to be a struct.
func fieldSourcesFact(p *Prog) string {
	if fieldSourcesMemo != nil {
		return *fieldSourcesMemo
	}
	res := ""
	fieldSourcesMemo = &res
	n := 0
	for _, fi := range p.Funcs {
		sf := p.SSAFunc(fi)
		allInstrs(sf, true, func(in ssa.Instruction) {
			st, ok := in.(*ssa.Store)
			if !ok {
				return
			}
			fa, ok := st.Addr.(*ssa.FieldAddr)
			if !ok || fieldName(fa) != "Type" || !isNamed(fa.X.Type(), modPath+"/xtype", "FieldSources") {
				return
			}
			n++
			if ok, why := provenStruct(p, fi, st.Val, st.Block(), 0, map[ssa.Value]bool{}); !ok {
				res = fmt.Sprintf("%s (%s) stores a FieldSources.Type that is not proven to be a struct: %s", fi.Name(), p.PosStr(st.Pos()), why)
			}
		})
	}
	if n == 0 {
		res = "no construction site of xtype.FieldSources found"
	}
	return res
}

// outerSwitchMissing: fi is a private helper whose type switch `inner` inspects one of its parameters; when every call
// of fi sits in the default arm of a type switch over the value passed for that parameter, the members that switch
// leaves to its default are returned (nil: the situation does not apply).
func outerSwitchMissing(p *Prog, fi *FuncInfo, inner ast.Stmt) map[string]bool {
	ts, ok := inner.(*ast.TypeSwitchStmt)
	if !ok {
		return nil
	}
	info := fi.Pkg.TypesInfo
	var x ast.Expr
	switch a := ts.Assign.(type) {
	case *ast.AssignStmt:
		x = a.Rhs[0].(*ast.TypeAssertExpr).X
	case *ast.ExprStmt:
		x = a.X.(*ast.TypeAssertExpr).X
	}
	id, ok := ast.Unparen(x).(*ast.Ident)
	if !ok {
		return nil
	}
	v, ok := info.ObjectOf(id).(*types.Var)
	if !ok || !isParamOf(fi, v) {
		return nil
	}
	sig := fi.Obj.Type().(*types.Signature)
	idx := -1
	for i := 0; i < sig.Params().Len(); i++ {
		if sig.Params().At(i) == v {
			idx = i
		}
	}
	var out map[string]bool
	n := 0
	for _, cs := range p.Calls() {
		f, ok := cs.Callee.(*types.Func)
		if !ok || f.Origin() != fi.Obj.Origin() || cs.Encl == nil {
			continue
		}
		n++
		if idx >= len(cs.Call.Args) {
			return nil
		}
		// innermost enclosing case clause must be the default of a type switch over the argument
		var cc *ast.CaseClause
		var osw *ast.TypeSwitchStmt
		for i := len(cs.Stack) - 1; i >= 0; i-- {
			if c, ok := cs.Stack[i].(*ast.CaseClause); ok {
				cc = c
				if i >= 2 {
					osw, _ = cs.Stack[i-2].(*ast.TypeSwitchStmt)
				}
				break
			}
		}
		if cc == nil || osw == nil || len(cc.List) != 0 {
			return nil
		}
		var ox ast.Expr
		switch a := osw.Assign.(type) {
		case *ast.AssignStmt:
			ox = a.Rhs[0].(*ast.TypeAssertExpr).X
		case *ast.ExprStmt:
			ox = a.X.(*ast.TypeAssertExpr).X
		}
		cinfo := cs.Pkg.TypesInfo
		aid, ok1 := ast.Unparen(cs.Call.Args[idx]).(*ast.Ident)
		oid, ok2 := ast.Unparen(ox).(*ast.Ident)
		if !ok1 || !ok2 || cinfo.ObjectOf(aid) != cinfo.ObjectOf(oid) {
			return nil
		}
		missing, _, _, err := switchMissing(p, cs.Encl, osw)
		if err != "" {
			return nil
		}
		m := map[string]bool{}
		for _, x := range missing {
			m[x] = true
		}
		// what can reach the helper is the union over its call sites
		if out == nil {
			out = m
		} else {
			for k := range m {
				out[k] = true
			}
		}
	}
	if n == 0 {
		return nil
	}
	return out
}
