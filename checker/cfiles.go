package main

// C15 (where output goes), C16 (header / build constraint wiring), C17 (no file
// system change on failure, exit codes).

import (
	"fmt"
	"go/ast"
	"go/build/constraint"
	"go/constant"
	"go/token"
	"go/types"
	"regexp"
	"strings"

	"golang.org/x/tools/go/ssa"
)

const controlFS = `package generator

import (
	"log"
	"os"
)

func zzControlCleanup(path string, data []byte) {
	_ = os.Remove(path)
	f, err := os.OpenFile(path, os.O_WRONLY|os.O_CREATE, 0o600)
	if err != nil {
		log.Fatal(err)
	}
	_, _ = f.Write(data)
	_ = f.Close()
	defer func() { _ = recover() }()
	os.Exit(0)
}
`

func init() {
	register(&Check{
		ID: "C17", Level: "proof",
		Explanation: "Structural theorem, proved on the source of every run: (O1) the only file-system mutators in goverter's own code are os.MkdirAll and os.WriteFile " +
			"inside goverter.writeFiles; (O2) writeFiles is referenced only by GenerateConverters, its call is dominated by the err==nil edge of generateConvertersRaw, " +
			"receives that call's map, and no generation step is reachable after it; (O3) generateConvertersRaw reports success only if ParseDocs, config.Parse and " +
			"generator.Generate did; (O4) generator.Generate returns (nil, err) at the first failing converter and renders only after the loop; (O5) writeFiles walks the " +
			"whole map, MkdirAll before WriteFile, success only after the loop; (O6) cli.Run: every error arm prints to os.Stderr and reaches os.Exit(1), help prints to " +
			"os.Stdout and exits 0, no other exit site, no recover, main only calls cli.Run; (O7) cli.Parse never returns a Generate command together with an error. " +
			"Hence a run in which any selected converter fails performs no FS mutation and exits 1. The proof is about the code shape; it is not a run-time observation.",
		NotDecided:   []string{"partial writes when the OS fails mid-way through writeFiles (I/O faults are outside the property's quantifier)", "behaviour of go list / go/packages with respect to the user's tree (trusted not to write)"},
		Run:          runC17,
		Controls:     map[string]string{"generator/zz_gvlint_control_fs.go": controlFS},
		ControlRules: []string{"C17.O1", "C17.O6"},
	})
	register(&Check{
		ID: "C15", Level: "other",
		Explanation: "Decides structural necessary conditions: (R1) who-may-write — no own function but goverter.writeFiles calls a file-system mutator, and it uses only os.MkdirAll/os.WriteFile " +
			"(create+truncate); (R2) the written path is the key of the map returned by generator.Generate, whose keys are fileManager.Files' keys = getOutputDir(converter); (R3) modes are the " +
			"constants 0644/0755; (R4) fileManager.Get returns a file only after comparing the file's package id with the converter's PackageID() (plain inequality, both path and name); " +
			"(R5) jen.NewFile* is called only in fileManager.Get; the documented defaults are the constants in config; (R6) an @cwd/ output path is made absolute (filepath.Abs) before use. " +
			"Path arithmetic and package-name inference themselves are not decided.",
		NotDecided:   []string{"relative/parent/absolute path arithmetic of getOutputDir and resolvePackage", "jennifer's package-name normalisation", "that the merged file is well-formed Go (see C01)"},
		Run:          runC15,
		Controls:     map[string]string{"generator/zz_gvlint_control_fs.go": controlFS},
		ControlRules: []string{"C15.R1"},
	})
	register(&Check{
		ID: "C16", Level: "other",
		Explanation: "Decides the wiring that makes the property possible: (R1) on the file-creating path of fileManager.Get both jen.NewFile* arms reach HeaderComment(\"// Code generated … DO NOT EDIT.\") " +
			"and then, under BuildConstraint != \"\", HeaderComment(\"//go:build \" + the unmodified configured constraint) before the file is stored; (R2) the default of -output-constraint evaluates to false under the " +
			"default -build-tags and to true without them (semantic evaluation with go/build/constraint); (R3) flag → GenerateConfig → ParseDocsConfig/config.Raw/generator.Config fields are wired to the " +
			"same-named source; (R4) every packages.Load call in own code passes \"-tags\", <the unmodified tag string> under a != \"\" guard. That go list then ignores stale output is trusted.",
		NotDecided:   []string{"that go list really skips files excluded by the constraint (trusted)", "the recovery consequence itself (regeneration over broken output)"},
		Run:          runC16,
		Controls:     map[string]string{"generator/zz_gvlint_control_fs.go": controlFS, "config/zz_gvlint_control_fsread.go": controlFSRead},
		ControlRules: []string{"C16.R5", "C16.R6"},
	})
}

var fsMutators = map[string]bool{
	"os.WriteFile": true, "os.MkdirAll": true, "os.Mkdir": true, "os.Create": true, "os.CreateTemp": true, "os.MkdirTemp": true, "os.OpenFile": true,
	"os.Remove": true, "os.RemoveAll": true, "os.Rename": true, "os.Chmod": true, "os.Chown": true, "os.Lchown": true, "os.Chtimes": true, "os.Truncate": true,
	"os.Symlink": true, "os.Link": true, "os.NewFile": true, "os.CopyFS": true,
	"io/ioutil.WriteFile": true, "io/ioutil.TempFile": true, "io/ioutil.TempDir": true,
	"os.(File).Write": true, "os.(File).WriteString": true, "os.(File).WriteAt": true, "os.(File).Truncate": true, "os.(File).Chmod": true, "os.(File).ReadFrom": true, "os.(File).Sync": true, "os.(File).WriteTo": false,
	"os/exec.Command": true, "os/exec.CommandContext": true, "os.StartProcess": true, "syscall.Exec": true, "syscall.Open": true, "syscall.Write": true, "syscall.Unlink": true, "syscall.Rename": true, "syscall.Mkdir": true,
}

func mutatorName(fn *types.Func) string {
	pp := objPkgPath(fn)
	if r := recvTypeName(fn); r != "" {
		return fmt.Sprintf("%s.(%s).%s", pp, r, fn.Name())
	}
	return pp + "." + fn.Name()
}

// ruleWhoMayWrite: rule id is C15.R1 / C17.O1.
func ruleWhoMayWrite(p *Prog, r *Report, id string) {
	r.Rule(id, "no function of own code other than goverter.writeFiles calls a file-system mutator (os.WriteFile/Create/OpenFile/Remove*/Rename/Chmod/…, (*os.File) writers, ioutil, os/exec); writeFiles itself uses only os.MkdirAll and os.WriteFile (create + truncate)", 2)
	n := 0
	for _, cs := range p.Calls() {
		fn, ok := cs.Callee.(*types.Func)
		if !ok {
			continue
		}
		name := mutatorName(fn)
		if !fsMutators[name] {
			continue
		}
		n++
		encl := "<package init>"
		if cs.Encl != nil {
			// a private helper that only writeFiles calls counts as part of writeFiles
			encl = p.anchorFor(cs.Encl, []string{"goverter.writeFiles"})
		}
		site := encl + "/" + name
		pos := p.PosStr(cs.Call.Pos())
		if encl == "goverter.writeFiles" && (name == "os.MkdirAll" || name == "os.WriteFile") {
			r.OK(site, pos, "the designated writer")
		} else if encl == "goverter.writeFiles" {
			r.Bad(site, pos, "writeFiles must create files with os.WriteFile (create+truncate, complete content) and directories with os.MkdirAll only; "+name+" is a different mutation")
		} else {
			r.Bad(site, pos, "file-system mutation outside goverter.writeFiles: a failing or partially successful run could change files")
		}
	}
	// function values referring to mutators (e.g. passing os.Remove as a callback)
	for _, pkg := range p.Own {
		for id2, o := range pkg.TypesInfo.Uses {
			fn, ok := o.(*types.Func)
			if !ok || !fsMutators[mutatorName(fn)] {
				continue
			}
			isCall := false
			for _, cs := range p.Calls() {
				if cs.Call.Fun.Pos() <= id2.Pos() && id2.End() <= cs.Call.Fun.End() {
					isCall = true
					break
				}
			}
			if !isCall {
				r.Bad("value:"+mutatorName(fn), p.PosStr(id2.Pos()), "file-system mutator used as a function value; its callers cannot be bounded")
			}
		}
	}
	r.Analysed["fs_mutator_call_sites"] = n
}

// ---------------------------------------------------------------------------
// C17

func runC17(p *Prog, r *Report) {
	ruleWhoMayWrite(p, r, "C17.O1")
	c17O2(p, r)
	c17O3(p, r)
	c17O4(p, r)
	c17O5(p, r, "C17.O5")
	c17O6(p, r)
	c17O7(p, r)
	loopCompleteRule(p, r, "C17.O8", "every converter is generated and every registered file rendered: the converter loop of generator.Generate and the loops of fileManager.renderFiles have no break/continue/goto/non-failing return — on success the returned map holds a rendered entry for every output file", []loopSpec{
		{"generator.Generate", "converters", "config.Converter"},
		{"generator.(*fileManager).renderFiles", "files", ""},
	})
	packageErrorsFirstRule(p, r, "C17.O9")
	c03R4(p, r, "C17.O10", []string{"", "cli", "cmd/goverter", "generator", "comments", "config"})
	missingPatternRule(p, r, "C17.O11")
}

func needFunc(p *Prog, r *Report, key string) (*FuncInfo, *ssa.Function) {
	fi := p.Func(key)
	if fi == nil {
		r.Unresolved("function " + key)
		return nil, nil
	}
	sf := p.SSAFunc(fi)
	if sf == nil || len(sf.Blocks) == 0 {
		r.Unresolved("SSA of " + key)
		return nil, nil
	}
	return fi, sf
}

// refsOutsideCalls lists references to fn that are not the callee of a call.
func (p *Prog) refSites(fn *types.Func) (callers map[string]int, values []token.Pos) {
	callers = map[string]int{}
	for _, cs := range p.Calls() {
		if f, ok := cs.Callee.(*types.Func); ok && f.Origin() == fn.Origin() {
			if cs.Encl != nil {
				callers[cs.Encl.Name()]++
			} else {
				callers["<package init>"]++
			}
		}
	}
	for _, pkg := range p.Own {
		for id, o := range pkg.TypesInfo.Uses {
			f, ok := o.(*types.Func)
			if !ok || f.Origin() != fn.Origin() {
				continue
			}
			isCall := false
			for _, cs := range p.Calls() {
				if cs.Call.Fun.Pos() <= id.Pos() && id.End() <= cs.Call.Fun.End() {
					isCall = true
					break
				}
			}
			if !isCall {
				values = append(values, id.Pos())
			}
		}
	}
	return
}

func c17O2(p *Prog, r *Report) {
	r.Rule("C17.O2", "writeFiles is referenced only by the call in GenerateConverters; that call is dominated by the err==nil edge of the test on generateConvertersRaw's error, receives that call's first result, and no generation step (generateConvertersRaw) is reachable after it", 2)
	wf, _ := needFunc(p, r, "goverter.writeFiles")
	gc, gcs := needFunc(p, r, "goverter.GenerateConverters")
	raw, _ := needFunc(p, r, "goverter.generateConvertersRaw")
	if wf == nil || gc == nil || raw == nil {
		return
	}
	callers, vals := p.refSites(wf.Obj)
	for c, n := range callers {
		if c == "goverter.GenerateConverters" {
			r.OK("who-may-call(writeFiles)/"+c, "", fmt.Sprintf("%d call(s)", n))
		} else {
			r.Bad("who-may-call(writeFiles)/"+c, p.PosStr(wf.Decl.Pos()), "writeFiles is called from "+c+"; only GenerateConverters may write")
		}
	}
	for _, v := range vals {
		r.Bad("who-may-call(writeFiles)/value", p.PosStr(v), "writeFiles is used as a function value")
	}
	wcalls := callsIn(gcs, true, isObj(modPath, "", "writeFiles"))
	gcalls := callsIn(gcs, true, isObj(modPath, "", "generateConvertersRaw"))
	if len(wcalls) == 0 || len(gcalls) == 0 {
		r.Unresolved("calls to writeFiles / generateConvertersRaw in GenerateConverters")
		return
	}
	for i, wc := range wcalls {
		site := fmt.Sprintf("goverter.GenerateConverters/writeFiles#%d", i+1)
		pos := p.PosStr(wc.Pos())
		in := wc.(ssa.Instruction)
		// argument origin
		arg := wc.Common().Args[0]
		ex, ok := arg.(*ssa.Extract)
		var src ssa.CallInstruction
		if ok && ex.Index == 0 {
			src, _ = ex.Tuple.(ssa.CallInstruction)
		}
		if src == nil || ssaCalleeObj(src) == nil || !isFunc(ssaCalleeObj(src), modPath, "", "generateConvertersRaw") {
			r.Bad(site, pos, "the map given to writeFiles is not the first result of generateConvertersRaw")
			continue
		}
		// dominated by err == nil edge on that same call's error
		okDom := false
		var errVal ssa.Value
		for _, rr := range *src.Value().Referrers() {
			if e2, ok := rr.(*ssa.Extract); ok && e2.Index == 1 {
				errVal = e2
			}
		}
		if errVal != nil {
			al := aliasesOf(errVal)
			isErrCheck := func(want bool) func(ssa.Value) bool {
				return func(c ssa.Value) bool {
					ne, ok := isNilCheck(c, func(x ssa.Value) bool { return al[x] })
					return ok && ne == want
				}
			}
			// err != nil → false edge ; err == nil → true edge
			if dominatedByEdge(in.Block(), false, isErrCheck(true)) || dominatedByEdge(in.Block(), true, isErrCheck(false)) {
				okDom = true
			}
		}
		if !okDom {
			r.Bad(site, pos, "the call of writeFiles is not dominated by the err == nil edge of generateConvertersRaw's error: files could be written although generation failed")
			continue
		}
		// no generation after a write
		g := existsPath(in.Block(), instrIndex(in)+1, func(x ssa.Instruction) bool {
			c, ok := x.(ssa.CallInstruction)
			return ok && ssaCalleeObj(c) != nil && isFunc(ssaCalleeObj(c), modPath, "", "generateConvertersRaw")
		}, nil)
		if g != nil {
			r.Bad(site, pos, "a generation step ("+p.PosStr(g.Pos())+") is reachable after files were written: a later failure leaves earlier output changed")
			continue
		}
		// exactly one generation call feeds everything
		if len(gcalls) != 1 {
			r.Bad(site, pos, fmt.Sprintf("GenerateConverters runs generateConvertersRaw %d times; all converters of a run must be generated before anything is written", len(gcalls)))
			continue
		}
		// not inside a loop
		if inCycle(in.Block()) {
			r.Bad(site, pos, "writeFiles is called inside a loop")
			continue
		}
		r.OK(site, pos, "dominated by err==nil of the single generateConvertersRaw call, receives its map, no generation reachable afterwards")
	}
	// generateConvertersRaw is only called from GenerateConverters (and tests)
	callers2, _ := p.refSites(raw.Obj)
	for c := range callers2 {
		if c != "goverter.GenerateConverters" {
			r.Note("who-may-call(generateConvertersRaw)/"+c, "", "additional caller (does not write)")
		}
	}
}

func inCycle(b *ssa.BasicBlock) bool {
	seen := map[*ssa.BasicBlock]bool{}
	var walk func(x *ssa.BasicBlock) bool
	walk = func(x *ssa.BasicBlock) bool {
		for _, s := range x.Succs {
			if s == b {
				return true
			}
			if !seen[s] {
				seen[s] = true
				if walk(s) {
					return true
				}
			}
		}
		return false
	}
	return walk(b)
}

// errRule applies the error discipline to all error-producing calls of the named
// functions whose callee satisfies filter (nil = all).
func errRuleOn(p *Prog, r *Report, fnKey string, filter func(*types.Func) bool, audited map[string]string) int {
	fi, sf := needFunc(p, r, fnKey)
	if fi == nil {
		return 0
	}
	n := 0
	cnt := map[string]int{}
	for _, ec := range errorCalls(sf) {
		if ec.calle == nil {
			// dynamic call through a function value: still an obligation
		} else if filter != nil && !filter(ec.calle) {
			continue
		}
		name := calleeName(ec.call)
		cnt[name]++
		site := fmt.Sprintf("%s/call %s#%d", fnKey, name, cnt[name])
		pos := p.PosStr(ec.call.Pos())
		n++
		if why, ok := audited[fnKey+"|"+name]; ok {
			r.OK(site, pos, "audited drop: "+why)
			r.Tables = append(r.Tables, "audited error drop "+fnKey+" ← "+name+" — "+why)
			continue
		}
		if len(ec.vals) < ec.nErr {
			r.Bad(site, pos, "the error result of "+name+" is discarded (blank or unused)")
			continue
		}
		bad := false
		how := ""
		for _, v := range ec.vals {
			vd := checkErrValue(ec, v)
			if !vd.ok {
				where := ""
				if vd.at.IsValid() {
					where = " (" + p.PosStr(vd.at) + ")"
				}
				r.Bad(site, pos, vd.how+where)
				bad = true
				break
			}
			how = vd.how
		}
		if !bad {
			r.OK(site, pos, how)
		}
	}
	return n
}

func c17O3(p *Prog, r *Report) {
	r.Rule("C17.O3", "generateConvertersRaw (and GenerateConverters) report success only if comments.ParseDocs, config.Parse and generator.Generate did: no success return is reachable while one of their errors may be non-nil", 4)
	errRuleOn(p, r, "goverter.generateConvertersRaw", nil, nil)
	errRuleOn(p, r, "goverter.GenerateConverters", nil, nil)
	// all three stages are actually called
	_, sf := needFunc(p, r, "goverter.generateConvertersRaw")
	if sf == nil {
		return
	}
	// private helpers of generateConvertersRaw are part of it: same error discipline, and their calls count
	var region []*ssa.Function
	for _, rf := range p.Region("goverter.generateConvertersRaw") {
		if hf := p.SSAFunc(rf); hf != nil {
			region = append(region, hf)
			if hf != sf {
				errRuleOn(p, r, rf.Name(), nil, nil)
			}
		}
	}
	for _, st := range [][3]string{{modPath + "/comments", "", "ParseDocs"}, {modPath + "/config", "", "Parse"}, {modPath + "/generator", "", "Generate"}} {
		n := 0
		for _, hf := range region {
			n += len(callsIn(hf, true, isObj(st[0], st[1], st[2])))
		}
		if n == 0 {
			r.Unresolved("call to " + st[2] + " in generateConvertersRaw")
		}
	}
}

func c17O4(p *Prog, r *Report) {
	r.Rule("C17.O4", "generator.Generate / config.Parse / comments.ParseDocs stop at the first failing converter: every error inside their loops is propagated (no success return reachable), every failing return of Generate yields a nil file map, and renderFiles is called outside the converter loop", 6)
	errRuleOn(p, r, "generator.Generate", nil, nil)
	if p.Func("generator.generateConverter") != nil {
		errRuleOn(p, r, "generator.generateConverter", nil, nil)
	}
	errRuleOn(p, r, "config.Parse", nil, nil)
	errRuleOn(p, r, "comments.ParseDocs", nil, nil)
	_, sf := needFunc(p, r, "generator.Generate")
	if sf == nil {
		return
	}
	rc := callsIn(sf, false, isObj(modPath+"/generator", "fileManager", "renderFiles"))
	if len(rc) == 0 {
		r.Unresolved("call to renderFiles in generator.Generate")
	}
	for _, c := range rc {
		in := c.(ssa.Instruction)
		if inCycle(in.Block()) {
			r.Bad("generator.Generate/renderFiles", p.PosStr(c.Pos()), "files are rendered inside the converter loop: a later failing converter would leave earlier files rendered/returned")
		} else {
			r.OK("generator.Generate/renderFiles", p.PosStr(c.Pos()), "rendered once, after the converter loop")
		}
	}
	// failing returns carry a nil map (except the tail return of renderFiles)
	for _, b := range sf.Blocks {
		for _, in := range b.Instrs {
			ret, ok := in.(*ssa.Return)
			if !ok || isSuccessReturn(ret) || len(ret.Results) != 2 {
				continue
			}
			site := "generator.Generate/failing return"
			if isNilConst(ret.Results[0]) {
				r.OK(site, p.PosStr(ret.Pos()), "returns a nil map with the error")
				continue
			}
			if ex, ok := ret.Results[0].(*ssa.Extract); ok {
				if c, ok := ex.Tuple.(ssa.CallInstruction); ok && ssaCalleeObj(c) != nil && isFunc(ssaCalleeObj(c).Origin(), modPath+"/generator", "fileManager", "renderFiles") {
					r.OK(site, p.PosStr(ret.Pos()), "tail return of renderFiles (its error is checked by GenerateConverters before writing, O2)")
					continue
				}
			}
			r.Bad(site, p.PosStr(ret.Pos()), "a failing return of Generate carries a non-nil file map")
		}
	}
}

func c17O5(p *Prog, r *Report, id string) {
	r.Rule(id, "writeFiles ranges over the whole map without break/continue, calls os.MkdirAll(filepath.Dir(key)) before os.WriteFile(key, value) for each entry and returns nil only after the loop", 4)
	fi, sf := needFunc(p, r, "goverter.writeFiles")
	if fi == nil {
		return
	}
	info := fi.Pkg.TypesInfo
	var rng *ast.RangeStmt
	ast.Inspect(fi.Decl, func(n ast.Node) bool {
		if rs, ok := n.(*ast.RangeStmt); ok && rng == nil {
			rng = rs
		}
		return true
	})
	if rng == nil {
		r.Unresolved("range loop in writeFiles")
		return
	}
	pos := p.PosStr(rng.Pos())
	// the ranged map is the parameter
	if id0, ok := ast.Unparen(rng.X).(*ast.Ident); !ok || info.ObjectOf(id0) != fi.Obj.Type().(*types.Signature).Params().At(0) {
		r.Bad("goverter.writeFiles/range", pos, "the loop does not range over the files parameter")
	} else {
		r.OK("goverter.writeFiles/range", pos, "ranges over the files parameter")
	}
	hasBranch := false
	ast.Inspect(rng.Body, func(n ast.Node) bool {
		if b, ok := n.(*ast.BranchStmt); ok && (b.Tok == token.BREAK || b.Tok == token.CONTINUE || b.Tok == token.GOTO) {
			hasBranch = true
		}
		return true
	})
	if hasBranch {
		r.Bad("goverter.writeFiles/complete", pos, "break/continue inside the write loop: some files may be skipped on success")
	} else {
		r.OK("goverter.writeFiles/complete", pos, "no break/continue: every entry is visited")
	}
	keyObj := types.Object(nil)
	valObj := types.Object(nil)
	if id0, ok := rng.Key.(*ast.Ident); ok {
		keyObj = info.ObjectOf(id0)
	}
	if id0, ok := rng.Value.(*ast.Ident); ok {
		valObj = info.ObjectOf(id0)
	}
	isObjIdent := func(e ast.Expr, o types.Object) bool {
		id0, ok := ast.Unparen(e).(*ast.Ident)
		return ok && o != nil && info.ObjectOf(id0) == o
	}
	wf := findCalls(info, rng.Body, "os", "", "WriteFile")
	md := findCalls(info, rng.Body, "os", "", "MkdirAll")
	orderFn := sf
	if len(wf) == 0 && len(md) == 0 {
		// the pair lives in a private helper called once per entry: map its parameters back to the call's arguments
		ast.Inspect(rng.Body, func(n ast.Node) bool {
			call, ok := n.(*ast.CallExpr)
			if !ok {
				return true
			}
			f, ok := calleeObj(info, call).(*types.Func)
			if !ok || f.Exported() || !p.IsOwn(f.Pkg()) {
				return true
			}
			h := p.Func(funcKey(f))
			if h == nil || h.Decl.Body == nil || !p.inRegion("goverter.writeFiles", h) {
				return true
			}
			hw := findCalls(info, h.Decl.Body, "os", "", "WriteFile")
			hm := findCalls(info, h.Decl.Body, "os", "", "MkdirAll")
			if len(hw) != 1 || len(hm) != 1 {
				return true
			}
			wf, md = hw, hm
			if hsf := p.SSAFunc(h); hsf != nil {
				orderFn = hsf
			}
			sig := h.Obj.Type().(*types.Signature)
			argOf := map[types.Object]ast.Expr{}
			for i := 0; i < sig.Params().Len() && i < len(call.Args); i++ {
				argOf[sig.Params().At(i)] = call.Args[i]
			}
			inner := isObjIdent
			isObjIdent = func(e ast.Expr, o types.Object) bool {
				if id0, ok := ast.Unparen(e).(*ast.Ident); ok {
					if a, isParam := argOf[info.ObjectOf(id0)]; isParam {
						return inner(a, o)
					}
				}
				return inner(e, o)
			}
			return false
		})
	}
	if len(wf) != 1 || len(md) != 1 {
		r.Bad("goverter.writeFiles/calls", pos, fmt.Sprintf("expected exactly one os.WriteFile and one os.MkdirAll in the loop body, found %d and %d", len(wf), len(md)))
		return
	}
	if isObjIdent(wf[0].Args[0], keyObj) && isObjIdent(wf[0].Args[1], valObj) {
		r.OK("goverter.writeFiles/WriteFile args", p.PosStr(wf[0].Pos()), "path = range key, content = range value")
	} else {
		r.Bad("goverter.writeFiles/WriteFile args", p.PosStr(wf[0].Pos()), "os.WriteFile is not called with (range key, range value): written path or content differs from what was generated")
	}
	// the directory may be named first: dir := filepath.Dir(path)
	dirArg := md[0].Args[0]
	if id0, ok := ast.Unparen(dirArg).(*ast.Ident); ok {
		if encl := p.enclosingFuncOf(md[0].Pos()); encl != nil {
			if def := localDef(info, encl.Decl, info.ObjectOf(id0)); def != nil {
				dirArg = def
			}
		}
	}
	if d := callTo(info, dirArg, "path/filepath", "", "Dir"); d != nil && isObjIdent(d.Args[0], keyObj) {
		r.OK("goverter.writeFiles/MkdirAll arg", p.PosStr(md[0].Pos()), "directory = filepath.Dir(range key)")
	} else {
		r.Bad("goverter.writeFiles/MkdirAll arg", p.PosStr(md[0].Pos()), "os.MkdirAll is not called with filepath.Dir(range key)")
	}
	// order + success return after loop (SSA)
	mds := callsIn(orderFn, false, isObj("os", "", "MkdirAll"))
	wfs := callsIn(orderFn, false, isObj("os", "", "WriteFile"))
	if orderFn != sf {
		errRuleOn(p, r, ssaKeyOf(p, orderFn), nil, nil)
	}
	if len(mds) == 1 && len(wfs) == 1 {
		mb, wb := mds[0].(ssa.Instruction), wfs[0].(ssa.Instruction)
		if mb.Block().Dominates(wb.Block()) && (mb.Block() != wb.Block() || instrIndex(mb) < instrIndex(wb)) {
			r.OK("goverter.writeFiles/order", p.PosStr(wb.Pos()), "MkdirAll dominates WriteFile")
		} else {
			r.Bad("goverter.writeFiles/order", p.PosStr(wb.Pos()), "os.WriteFile is not dominated by os.MkdirAll")
		}
	}
	for _, b := range sf.Blocks {
		for _, in := range b.Instrs {
			if ret, ok := in.(*ssa.Return); ok && isSuccessReturn(ret) {
				if inCycle(b) {
					r.Bad("goverter.writeFiles/success return", p.PosStr(ret.Pos()), "success is returned from inside the loop: remaining files are not written")
				} else {
					r.OK("goverter.writeFiles/success return", p.PosStr(ret.Pos()), "nil is returned only after the loop")
				}
			}
		}
	}
	errRuleOn(p, r, "goverter.writeFiles", nil, nil)
}

// ssaKeyOf returns the index key of the source function behind fn.
func ssaKeyOf(p *Prog, fn *ssa.Function) string {
	if o, ok := fn.Object().(*types.Func); ok {
		return funcKey(o)
	}
	return fn.String()
}

func c17O6(p *Prog, r *Report) {
	r.Rule("C17.O6", "cli.Run: each error arm (Parse, GenerateConverters) prints to os.Stderr and reaches os.Exit(1) on every path; the help arm prints to os.Stdout and exits 0; os.Exit/log.Fatal/recover occur nowhere else; main only calls cli.Run", 6)
	fi, sf := needFunc(p, r, "cli.Run")
	if fi == nil {
		return
	}
	// who may exit
	nExit := 0
	for _, cs := range p.Calls() {
		fn, ok := cs.Callee.(*types.Func)
		encl := "<package init>"
		if cs.Encl != nil {
			encl = cs.Encl.Name()
		}
		if ok && (isFunc(fn, "os", "", "Exit") || objPkgPath(fn) == "log" && strings.HasPrefix(fn.Name(), "Fatal") || isFunc(fn, "runtime", "", "Goexit") || isFunc(fn, "syscall", "", "Exit")) {
			nExit++
			name := objPkgPath(fn) + "." + fn.Name()
			if encl == "cli.Run" && name == "os.Exit" {
				continue // examined below
			}
			if cs.Encl != nil && isExitHelper(cs.Encl.Obj) && name == "os.Exit" {
				continue // a verified error-exit helper of cli.Run (prints its argument to stderr, exits non-zero)
			}
			r.Bad(encl+"/"+name, p.PosStr(cs.Call.Pos()), "process exit outside cli.Run: exit status / file state no longer follow the single decision point")
		}
		if b, ok := cs.Callee.(*types.Builtin); ok && b.Name() == "recover" {
			r.Bad(encl+"/recover", p.PosStr(cs.Call.Pos()), "recover() could turn a failure into a success path")
		}
	}
	// error arms: for every error-producing call in Run
	nArms := 0
	for _, ec := range errorCalls(sf) {
		if ec.calle == nil || !(isFunc(ec.calle, modPath+"/cli", "", "Parse") || isFunc(ec.calle, modPath, "", "GenerateConverters")) {
			continue
		}
		nArms++
		site := "cli.Run/error arm of " + ec.calle.Name()
		pos := p.PosStr(ec.call.Pos())
		if len(ec.vals) != 1 {
			r.Bad(site, pos, "error result discarded")
			continue
		}
		al := aliasesOf(ec.vals[0])
		found := false
		for a := range al {
			if a.Referrers() == nil {
				continue
			}
			for _, rr := range *a.Referrers() {
				bo, ok := rr.(*ssa.BinOp)
				if !ok || bo.Referrers() == nil {
					continue
				}
				for _, r2 := range *bo.Referrers() {
					ifi, ok := r2.(*ssa.If)
					if !ok {
						continue
					}
					ne, isC := isNilCheck(ifi.Cond, func(x ssa.Value) bool { return al[x] })
					if !isC {
						continue
					}
					found = true
					nonNil := ifi.Block().Succs[0]
					if !ne {
						nonNil = ifi.Block().Succs[1]
					}
					// every path from nonNil must hit os.Exit(non-zero const) before returning,
					// and before that a print to os.Stderr with the error
					exitOK := func(in ssa.Instruction) bool {
						c, ok := in.(ssa.CallInstruction)
						if !ok || ssaCalleeObj(c) == nil {
							return false
						}
						if isExitHelper(ssaCalleeObj(c)) {
							return true
						}
						if !isFunc(ssaCalleeObj(c), "os", "", "Exit") {
							return false
						}
						k, ok := c.Common().Args[0].(*ssa.Const)
						return ok && k.Value != nil && constant.Sign(k.Value) != 0
					}
					if g := existsPath(nonNil, 0, func(in ssa.Instruction) bool {
						if isReturn(in) {
							return true
						}
						// an exit with status 0 on the error arm is a violation as well
						if c, ok := in.(ssa.CallInstruction); ok && ssaCalleeObj(c) != nil && isFunc(ssaCalleeObj(c), "os", "", "Exit") && !exitOK(in) {
							return true
						}
						return false
					}, exitOK); g != nil {
						r.Bad(site, p.PosStr(g.Pos()), "on the error arm the process can return normally or exit with status 0")
						continue
					}
					// stderr print before exit
					printOK := func(in ssa.Instruction) bool {
						c, ok := in.(ssa.CallInstruction)
						if !ok || ssaCalleeObj(c) == nil {
							return false
						}
						if isExitHelper(ssaCalleeObj(c)) {
							// the helper prints its argument to stderr: it must be this error
							for _, a := range c.Common().Args {
								if flowsFrom(a, al) {
									return true
								}
							}
							return false
						}
						if objPkgPath(ssaCalleeObj(c)) != "fmt" || !strings.HasPrefix(ssaCalleeObj(c).Name(), "Fprint") {
							return false
						}
						if !isGlobalLoad(c.Common().Args[0], "os", "Stderr") {
							return false
						}
						for _, a := range c.Common().Args[1:] {
							if flowsFrom(a, al) {
								return true
							}
						}
						return false
					}
					if g := existsPath(nonNil, 0, exitOK, printOK); g != nil {
						r.Bad(site, p.PosStr(g.Pos()), "the exit on the error arm is reachable without printing the error to os.Stderr")
						continue
					}
					r.OK(site, pos, "prints the error to os.Stderr, then os.Exit(non-zero) on every path")
				}
			}
		}
		if !found {
			r.Bad(site, pos, "the error is not tested against nil")
		}
	}
	if nArms < 2 {
		r.Unresolved("error arms of cli.Parse and GenerateConverters in cli.Run")
	}
	// all os.Exit calls in Run: status constants; Exit(0) only after a print to os.Stdout (help)
	for _, c := range callsIn(sf, true, isObj("os", "", "Exit")) {
		k, ok := c.Common().Args[0].(*ssa.Const)
		site := "cli.Run/os.Exit"
		if !ok || k.Value == nil {
			r.Bad(site, p.PosStr(c.Pos()), "exit status is not a constant")
			continue
		}
		v, _ := constant.Int64Val(k.Value)
		in := c.(ssa.Instruction)
		switch v {
		case 0:
			// must be in the *Help arm: dominated by a successful type assertion to *cli.Help
			if dominatedByEdge(in.Block(), true, func(cond ssa.Value) bool {
				ex, ok := cond.(*ssa.Extract)
				if !ok {
					return false
				}
				ta, ok := ex.Tuple.(*ssa.TypeAssert)
				return ok && isNamed(ta.AssertedType, modPath+"/cli", "Help")
			}) {
				r.OK(site+"(0)", p.PosStr(c.Pos()), "status 0 only in the *Help arm")
			} else {
				r.Bad(site+"(0)", p.PosStr(c.Pos()), "os.Exit(0) outside the help arm")
			}
		case 1:
			r.OK(site+"(1)", p.PosStr(c.Pos()), "status 1")
		default:
			r.Bad(site, p.PosStr(c.Pos()), fmt.Sprintf("unexpected exit status %d (documented: 0 or 1)", v))
		}
	}
	// help arm prints to stdout
	helpOK := false
	for _, c := range callsIn(sf, true, func(o *types.Func) bool { return objPkgPath(o) == "fmt" && strings.HasPrefix(o.Name(), "Fprint") }) {
		if isGlobalLoad(c.Common().Args[0], "os", "Stdout") {
			in := c.(ssa.Instruction)
			if dominatedByEdge(in.Block(), true, func(cond ssa.Value) bool {
				ex, ok := cond.(*ssa.Extract)
				if !ok {
					return false
				}
				ta, ok := ex.Tuple.(*ssa.TypeAssert)
				return ok && isNamed(ta.AssertedType, modPath+"/cli", "Help")
			}) {
				helpOK = true
			}
		}
	}
	if helpOK {
		r.OK("cli.Run/help arm", "", "usage is printed to os.Stdout in the *Help arm")
	} else {
		r.Bad("cli.Run/help arm", p.PosStr(fi.Decl.Pos()), "the help arm does not print to os.Stdout")
	}
	// success arm: GenerateConverters is only called in the *Generate arm
	for _, c := range callsIn(sf, true, isObj(modPath, "", "GenerateConverters")) {
		in := c.(ssa.Instruction)
		if dominatedByEdge(in.Block(), true, func(cond ssa.Value) bool {
			ex, ok := cond.(*ssa.Extract)
			if !ok {
				return false
			}
			ta, ok := ex.Tuple.(*ssa.TypeAssert)
			return ok && isNamed(ta.AssertedType, modPath+"/cli", "Generate")
		}) {
			r.OK("cli.Run/generate arm", p.PosStr(c.Pos()), "GenerateConverters runs only for a *Generate command")
		} else {
			r.Bad("cli.Run/generate arm", p.PosStr(c.Pos()), "GenerateConverters is called outside the *Generate arm (help/usage errors must not generate)")
		}
	}
	// main
	mfi, msf := needFunc(p, r, "cmd/goverter.main")
	if mfi != nil {
		n, other := 0, 0
		allInstrs(msf, true, func(in ssa.Instruction) {
			if c, ok := in.(ssa.CallInstruction); ok {
				if o := ssaCalleeObj(c); o != nil && isFunc(o, modPath+"/cli", "", "Run") {
					n++
				} else {
					other++
				}
			}
		})
		if n == 1 && other == 0 {
			r.OK("cmd/goverter.main", p.PosStr(mfi.Decl.Pos()), "main only calls cli.Run")
		} else {
			r.Bad("cmd/goverter.main", p.PosStr(mfi.Decl.Pos()), fmt.Sprintf("main calls cli.Run %d time(s) and %d other function(s)", n, other))
		}
	}
	_ = nExit
}

func isGlobalLoad(v ssa.Value, pkg, name string) bool {
	v = stripConv(v)
	u, ok := v.(*ssa.UnOp)
	if !ok || u.Op != token.MUL {
		return false
	}
	g, ok := u.X.(*ssa.Global)
	return ok && g.Pkg.Pkg.Path() == pkg && g.Name() == name
}

// flowsFrom: v is (a conversion/slice element of) one of the values in set.
func flowsFrom(v ssa.Value, set map[ssa.Value]bool) bool {
	seen := map[ssa.Value]bool{}
	var f func(x ssa.Value) bool
	f = func(x ssa.Value) bool {
		if x == nil || seen[x] {
			return false
		}
		seen[x] = true
		if set[x] {
			return true
		}
		switch y := x.(type) {
		case *ssa.MakeInterface:
			return f(y.X)
		case *ssa.ChangeInterface:
			return f(y.X)
		case *ssa.ChangeType:
			return f(y.X)
		case *ssa.Slice:
			return f(y.X)
		case *ssa.Alloc:
			// variadic slice backing array: look at stores into its elements
			if y.Referrers() != nil {
				for _, r := range *y.Referrers() {
					if ia, ok := r.(*ssa.IndexAddr); ok && ia.Referrers() != nil {
						for _, rr := range *ia.Referrers() {
							if st, ok := rr.(*ssa.Store); ok && f(st.Val) {
								return true
							}
						}
					}
				}
			}
		case *ssa.Phi:
			for _, e := range y.Edges {
				if f(e) {
					return true
				}
			}
		}
		return false
	}
	return f(v)
}

func c17O7(p *Prog, r *Report) {
	r.Rule("C17.O7", "cli.Parse / parseGen never return a non-nil error together with a command, and a *Generate command only with a nil error: usage errors cannot generate", 4)
	for _, key := range []string{"cli.Parse", "cli.parseGen"} {
		fi, sf := needFunc(p, r, key)
		if fi == nil {
			continue
		}
		for _, b := range sf.Blocks {
			for _, in := range b.Instrs {
				ret, ok := in.(*ssa.Return)
				if !ok || len(ret.Results) != 2 {
					continue
				}
				site := key + "/return"
				cmdNil := isNilConst(ret.Results[0])
				errNil := isNilConst(ret.Results[1])
				_, tail := ret.Results[0].(*ssa.Extract)
				switch {
				case tail:
					r.OK(site, p.PosStr(ret.Pos()), "tail return of parseGen (checked there)")
				case cmdNil && !errNil:
					r.OK(site, p.PosStr(ret.Pos()), "error without command")
				case !cmdNil && errNil:
					r.OK(site, p.PosStr(ret.Pos()), "command without error")
				default:
					r.Bad(site, p.PosStr(ret.Pos()), "returns a command together with a (possibly) non-nil error, or neither")
				}
			}
		}
	}
}

// ---------------------------------------------------------------------------
// C15

func runC15(p *Prog, r *Report) {
	ruleWhoMayWrite(p, r, "C15.R1")
	c17O5(p, r, "C15.R2")
	c15R2b(p, r)
	c15R3(p, r)
	c15R4(p, r)
	c15R5(p, r)
	c15R6(p, r, "C15.R6")
	getPackagesRule(p, r, "C15.R7")
	outputPackageRule(p, r, "C15.R8")
	armEffectRule(p, r, "C15.R9", "config.parseConverterLine", "output:package", "OutputPackagePath", "OutputPackageName")
	resolvePackageRelRule(p, r, "C15.R10")
	converterArmInventoryRule(p, r, "C15.R11")
	generateNoOwnErrorsRule(p, r, "C15.R12")
	allocatorContractRule(p, r, "C15.R13")
	outputPackageErrorsIgnoredRule(p, r, "C15.R14")
}

// c15R2b: keys of the rendered map are the fileManager keys, which are getOutputDir(conv).
func c15R2b(p *Prog, r *Report) {
	r.Rule("C15.R2b", "the keys of the map returned by renderFiles are the keys of fileManager.Files, and fileManager.Get files a converter under getOutputDir(conv)", 2)
	fi, _ := needFunc(p, r, "generator.(*fileManager).Get")
	rf, _ := needFunc(p, r, "generator.(*fileManager).renderFiles")
	if fi == nil || rf == nil {
		return
	}
	info := fi.Pkg.TypesInfo
	// in Get: every m.Files[k] index uses a k defined as getOutputDir(conv)
	n := 0
	ast.Inspect(fi.Decl, func(nn ast.Node) bool {
		ix, ok := nn.(*ast.IndexExpr)
		if !ok || !isFieldSel(info, ix.X, modPath+"/generator", "fileManager", "Files") {
			return true
		}
		n++
		site := fmt.Sprintf("generator.(*fileManager).Get/Files[%s]#%d", exprString(ix.Index), n)
		id, ok := ast.Unparen(ix.Index).(*ast.Ident)
		if !ok {
			r.Bad(site, p.PosStr(ix.Pos()), "file index is not a plain variable")
			return true
		}
		def := localDef(info, fi.Decl, info.ObjectOf(id))
		conv := fi.Obj.Type().(*types.Signature).Params().At(0)
		if c := callTo(info, def, modPath+"/generator", "", "getOutputDir"); c != nil && len(c.Args) == 1 {
			if a, ok := ast.Unparen(c.Args[0]).(*ast.Ident); ok && info.ObjectOf(a) == conv {
				r.OK(site, p.PosStr(ix.Pos()), "key = getOutputDir(conv)")
				return true
			}
		}
		r.Bad(site, p.PosStr(ix.Pos()), "the file is not keyed by getOutputDir(conv): the converter could land in another path")
		return true
	})
	if n == 0 {
		r.Unresolved("index of fileManager.Files in Get")
	}
	// in renderFiles: result[k] = … where k ranges over m.Files keys (directly or via sorted key slice)
	info = rf.Pkg.TypesInfo
	ok := false
	ast.Inspect(rf.Decl, func(nn ast.Node) bool {
		as, isAs := nn.(*ast.AssignStmt)
		if !isAs || len(as.Lhs) != 1 {
			return true
		}
		ix, isIx := ast.Unparen(as.Lhs[0]).(*ast.IndexExpr)
		if !isIx {
			return true
		}
		if t := info.TypeOf(ix.X); t == nil {
			return true
		} else if _, isMap := t.Underlying().(*types.Map); !isMap {
			return true
		}
		// the same index variable must index m.Files somewhere (f := m.Files[name]) or be its range key
		id, isId := ast.Unparen(ix.Index).(*ast.Ident)
		if !isId {
			return true
		}
		obj := info.ObjectOf(id)
		ast.Inspect(rf.Decl, func(m ast.Node) bool {
			switch x := m.(type) {
			case *ast.IndexExpr:
				if isFieldSel(info, x.X, modPath+"/generator", "fileManager", "Files") {
					if i2, ok2 := ast.Unparen(x.Index).(*ast.Ident); ok2 && info.ObjectOf(i2) == obj {
						ok = true
					}
				}
			case *ast.RangeStmt:
				if isFieldSel(info, x.X, modPath+"/generator", "fileManager", "Files") {
					if k, ok2 := x.Key.(*ast.Ident); ok2 && info.ObjectOf(k) == obj {
						ok = true
					}
				}
			}
			return true
		})
		return true
	})
	if ok {
		r.OK("generator.(*fileManager).renderFiles/result key", p.PosStr(rf.Decl.Pos()), "rendered bytes are stored under the same key as the managed file")
	} else {
		r.Bad("generator.(*fileManager).renderFiles/result key", p.PosStr(rf.Decl.Pos()), "the rendered map is not keyed by the managed file's key")
	}
}

func c15R3(p *Prog, r *Report) {
	r.Rule("C15.R3", "new files are created with the constant mode 0644 and new directories with 0755", 2)
	for _, cs := range p.Calls() {
		fn, ok := cs.Callee.(*types.Func)
		if !ok || cs.Encl == nil {
			continue
		}
		var want int64
		var argi int
		switch {
		case isFunc(fn, "os", "", "WriteFile"):
			want, argi = 0o644, 2
		case isFunc(fn, "os", "", "MkdirAll"), isFunc(fn, "os", "", "Mkdir"):
			want, argi = 0o755, 1
		default:
			continue
		}
		site := cs.Encl.Name() + "/" + fn.Name() + " mode"
		v, isConst := constInt(cs.Pkg.TypesInfo, cs.Call.Args[argi])
		if !isConst {
			r.Bad(site, p.PosStr(cs.Call.Pos()), "mode is not a constant")
		} else if v != want {
			r.Bad(site, p.PosStr(cs.Call.Pos()), fmt.Sprintf("mode is %#o, documented is %#o", v, want))
		} else {
			r.OK(site, p.PosStr(cs.Call.Pos()), fmt.Sprintf("constant %#o", v))
		}
	}
}

// c15R4: same file, different package → error.
func c15R4(p *Prog, r *Report) {
	r.Rule("C15.R4", "every return of fileManager.Get that hands out a file is dominated by the not-taken edge of a plain comparison `managedFile.PackageID != conv.PackageID()`; the stored id is conv.PackageID() of the first converter and PackageID() covers both package path and name", 3)
	fi, sf := needFunc(p, r, "generator.(*fileManager).Get")
	if fi == nil {
		return
	}
	isPkgIDCall := func(v ssa.Value) bool {
		c, ok := stripConv(v).(*ssa.Call)
		return ok && ssaCalleeObj(c) != nil && isFunc(ssaCalleeObj(c), modPath+"/config", "ConverterConfig", "PackageID")
	}
	isStoredID := func(v ssa.Value) bool {
		u, ok := stripConv(v).(*ssa.UnOp)
		if !ok || u.Op != token.MUL {
			return false
		}
		fa, ok := u.X.(*ssa.FieldAddr)
		if !ok {
			return false
		}
		st, ok := fa.X.Type().Underlying().(*types.Pointer)
		if !ok {
			return false
		}
		s, ok := st.Elem().Underlying().(*types.Struct)
		return ok && s.Field(fa.Field).Name() == "PackageID"
	}
	isCmp := func(cond ssa.Value) (neq bool, ok bool) {
		b, isB := cond.(*ssa.BinOp)
		if !isB || (b.Op != token.NEQ && b.Op != token.EQL) {
			return false, false
		}
		if (isPkgIDCall(b.X) && isStoredID(b.Y)) || (isPkgIDCall(b.Y) && isStoredID(b.X)) {
			return b.Op == token.NEQ, true
		}
		return false, false
	}
	nret := 0
	for _, b := range sf.Blocks {
		for _, in := range b.Instrs {
			ret, ok := in.(*ssa.Return)
			if !ok || !isSuccessReturn(ret) {
				continue
			}
			nret++
			site := fmt.Sprintf("generator.(*fileManager).Get/success return#%d", nret)
			if dominatedByEdge(b, false, func(c ssa.Value) bool { ne, ok := isCmp(c); return ok && ne }) ||
				dominatedByEdge(b, true, func(c ssa.Value) bool { ne, ok := isCmp(c); return ok && !ne }) {
				r.OK(site, p.PosStr(ret.Pos()), "reached only when the file's package id equals conv.PackageID()")
			} else {
				r.Bad(site, p.PosStr(ret.Pos()), "a file is handed out without the plain comparison of the file's PackageID with conv.PackageID(): converters with different packages could be merged into one file")
			}
		}
	}
	if nret == 0 {
		r.Unresolved("success return of fileManager.Get")
	}
	// stored id is conv.PackageID()
	info := fi.Pkg.TypesInfo
	okStore := false
	p.inspectRegion("generator.(*fileManager).Get", func(_ *FuncInfo, n ast.Node) bool {
		cl, ok := n.(*ast.CompositeLit)
		if !ok || !isNamed(info.TypeOf(cl), modPath+"/generator", "managedFile") {
			return true
		}
		if v := compositeField(cl, "PackageID"); v != nil && callTo(info, v, modPath+"/config", "ConverterConfig", "PackageID") != nil {
			okStore = true
		}
		return true
	})
	if okStore {
		r.OK("generator.(*fileManager).Get/managedFile.PackageID", p.PosStr(fi.Decl.Pos()), "initialised with conv.PackageID()")
	} else {
		r.Bad("generator.(*fileManager).Get/managedFile.PackageID", p.PosStr(fi.Decl.Pos()), "managedFile.PackageID is not initialised from conv.PackageID()")
	}
	// PackageID covers path and name
	pf, _ := needFunc(p, r, "config.(*ConverterConfig).PackageID")
	if pf != nil {
		pi := pf.Pkg.TypesInfo
		if mentionsField(pi, pf.Decl, modPath+"/config", "ConverterConfig", "OutputPackagePath") && mentionsField(pi, pf.Decl, modPath+"/config", "ConverterConfig", "OutputPackageName") {
			r.OK("config.(*ConverterConfig).PackageID/fields", p.PosStr(pf.Decl.Pos()), "reads OutputPackagePath and OutputPackageName")
		} else {
			r.Bad("config.(*ConverterConfig).PackageID/fields", p.PosStr(pf.Decl.Pos()), "PackageID() does not cover both OutputPackagePath and OutputPackageName")
		}
	}
}

func c15R5(p *Prog, r *Report) {
	r.Rule("C15.R5", "*jen.File values are created (jen.NewFile*) only in fileManager.Get, with the converter's OutputPackagePath/OutputPackageName; the documented default locations are the constants ./generated/generated.go and <file>.gen<ext>", 3)
	n := 0
	for _, cs := range p.Calls() {
		fn, ok := cs.Callee.(*types.Func)
		if !ok || objPkgPath(fn) != jenPath || !strings.HasPrefix(fn.Name(), "NewFile") {
			continue
		}
		n++
		site := "<package init>/jen." + fn.Name()
		if cs.Encl != nil {
			site = p.anchorFor(cs.Encl, []string{"generator.(*fileManager).Get"}) + "/jen." + fn.Name()
		}
		if cs.Encl == nil || !p.inRegion("generator.(*fileManager).Get", cs.Encl) {
			r.Bad(site, p.PosStr(cs.Call.Pos()), "an output file is created outside fileManager.Get (bypasses header, package agreement and path keying)")
			continue
		}
		info := cs.Pkg.TypesInfo
		okArgs := len(cs.Call.Args) >= 1 && isFieldSel(info, cs.Call.Args[0], modPath+"/config", "ConverterConfig", "OutputPackagePath")
		if fn.Name() == "NewFilePathName" {
			okArgs = okArgs && len(cs.Call.Args) == 2 && isFieldSel(info, cs.Call.Args[1], modPath+"/config", "ConverterConfig", "OutputPackageName")
		}
		if fn.Name() == "NewFile" {
			okArgs = false
		}
		if okArgs {
			r.OK(site, p.PosStr(cs.Call.Pos()), "package clause from conv.OutputPackagePath/OutputPackageName")
		} else {
			r.Bad(site, p.PosStr(cs.Call.Pos()), "the package clause is not taken from the converter's OutputPackagePath/OutputPackageName")
		}
	}
	if n == 0 {
		r.Unresolved("jen.NewFile* call")
	}
	// defaults
	cfg := p.Pkg("config")
	okDefault := false
	for _, f := range cfg.Syntax {
		ast.Inspect(f, func(nn ast.Node) bool {
			vs, ok := nn.(*ast.ValueSpec)
			if !ok || len(vs.Names) != 1 || vs.Names[0].Name != "DefaultConfigInterface" || len(vs.Values) != 1 {
				return true
			}
			if cl, ok := vs.Values[0].(*ast.CompositeLit); ok {
				if s, ok := constString(cfg.TypesInfo, compositeField(cl, "OutputFile")); ok && s == "./generated/generated.go" {
					okDefault = true
				}
			}
			return true
		})
	}
	if okDefault {
		r.OK("config.DefaultConfigInterface.OutputFile", "", "constant ./generated/generated.go")
	} else {
		r.Bad("config.DefaultConfigInterface.OutputFile", "", "default output file of interface converters is not ./generated/generated.go")
	}
	df, _ := needFunc(p, r, "config.defaultOutputFile")
	if df != nil {
		hasGen := false
		ast.Inspect(df.Decl, func(nn ast.Node) bool {
			if bl, ok := nn.(*ast.BasicLit); ok && bl.Value == `".gen"` {
				hasGen = true
			}
			return true
		})
		if hasGen && len(findCalls(df.Pkg.TypesInfo, df.Decl, "path/filepath", "", "Ext")) > 0 && len(findCalls(df.Pkg.TypesInfo, df.Decl, "path/filepath", "", "Base")) > 0 {
			r.OK("config.defaultOutputFile", p.PosStr(df.Decl.Pos()), "base name + .gen + extension")
		} else {
			r.Bad("config.defaultOutputFile", p.PosStr(df.Decl.Pos()), "default output file of variables blocks is not <file>.gen<ext>")
		}
	}
}

// c15R6: @cwd/ paths are made absolute.
func c15R6(p *Prog, r *Report, id string) {
	r.Rule(id, "in config/parse.File every path returned on the `@cwd/` branch is the result of filepath.Abs(filepath.Join(cwd, …)) — getOutputDir resolves relative paths against the declaring file, so an @cwd path must be absolute", 1)
	fi, sf := needFunc(p, r, "config/parse.File")
	if fi == nil {
		return
	}
	isCwdPrefix := func(cond ssa.Value) bool {
		// `rest, ok := strings.CutPrefix(field, "@cwd/")`: the condition is the second result
		if ex, isEx := cond.(*ssa.Extract); isEx && ex.Index == 1 {
			cond = ex.Tuple
		}
		c, ok := cond.(*ssa.Call)
		if !ok || ssaCalleeObj(c) == nil || !(isFunc(ssaCalleeObj(c), "strings", "", "HasPrefix") || isFunc(ssaCalleeObj(c), "strings", "", "CutPrefix")) {
			return false
		}
		k, ok := c.Call.Args[1].(*ssa.Const)
		return ok && k.Value != nil && k.Value.Kind() == constant.String && constant.StringVal(k.Value) == "@cwd/"
	}
	found := false
	for _, b := range sf.Blocks {
		for _, in := range b.Instrs {
			ret, ok := in.(*ssa.Return)
			if !ok {
				continue
			}
			if !dominatedByEdge(b, true, isCwdPrefix) {
				continue
			}
			found = true
			site := "config/parse.File/@cwd return"
			okAbs := false
			if ex, ok := ret.Results[0].(*ssa.Extract); ok {
				if c, ok := ex.Tuple.(*ssa.Call); ok && ssaCalleeObj(c) != nil && isFunc(ssaCalleeObj(c), "path/filepath", "", "Abs") {
					if j, ok := c.Call.Args[0].(*ssa.Call); ok && ssaCalleeObj(j) != nil && isFunc(ssaCalleeObj(j), "path/filepath", "", "Join") {
						okAbs = true
					}
				}
			}
			if okAbs {
				r.OK(site, p.PosStr(ret.Pos()), "filepath.Abs(filepath.Join(cwd, rest))")
			} else {
				r.Bad(site, p.PosStr(ret.Pos()), "an @cwd/ path is returned without filepath.Abs: a relative working directory would be resolved against the declaring file instead")
			}
		}
	}
	if !found {
		// maybe the branch is structured differently: any return dominated by false edge of !HasPrefix…
		r.Bad("config/parse.File/@cwd return", p.PosStr(fi.Decl.Pos()), "no return guarded by strings.HasPrefix(field, \"@cwd/\") found: the @cwd rule is not recognisable")
	}
}

// ---------------------------------------------------------------------------
// C16

var generatedRe = regexp.MustCompile(`^// Code generated .* DO NOT EDIT\.$`)

func runC16(p *Prog, r *Report) {
	c16R1(p, r)
	c16R2(p, r)
	c16R3(p, r)
	c16R4(p, r, "C16.R4")
	ruleWhoMayWrite(p, r, "C16.R5")
	noFsReadRule(p, r, "C16.R6")
	flagsNotRewrittenRule(p, r, "C16.R7")
	tagsOpaqueRule(p, r, "C16.R8")
	argsUnmodifiedRule(p, r, "C16.R9")
	outputPackageErrorsIgnoredRule(p, r, "C16.R10")
}

func c16R1(p *Prog, r *Report) {
	r.Rule("C16.R1", "every *jen.File created in fileManager.Get receives HeaderComment(<literal matching ^// Code generated .* DO NOT EDIT\\.$>) and then, guarded only by BuildConstraint != \"\", HeaderComment(\"//go:build \" + cfg.BuildConstraint) with the constraint unmodified, before the file is stored; no other function touches header comments", 3)
	fi, sf := needFunc(p, r, "generator.(*fileManager).Get")
	if fi == nil {
		return
	}
	isJen := func(name string) func(*types.Func) bool {
		return func(o *types.Func) bool { return objPkgPath(o) == jenPath && o.Name() == name }
	}
	isNewFile := func(o *types.Func) bool { return objPkgPath(o) == jenPath && strings.HasPrefix(o.Name(), "NewFile") }
	// the file may be created, given its headers and returned by a private helper of Get: analyse that function
	if len(callsIn(sf, false, isNewFile)) == 0 {
		for _, rf := range p.Region("generator.(*fileManager).Get") {
			if hf := p.SSAFunc(rf); hf != nil && len(callsIn(hf, false, isNewFile)) > 0 {
				sf = hf
			}
		}
	}
	news := callsIn(sf, false, isNewFile)
	hdrs := callsIn(sf, false, isJen("HeaderComment"))
	var gen, build []ssa.CallInstruction
	for _, h := range hdrs {
		arg := h.Common().Args[len(h.Common().Args)-1]
		if k, ok := arg.(*ssa.Const); ok && k.Value != nil && k.Value.Kind() == constant.String {
			if generatedRe.MatchString(constant.StringVal(k.Value)) {
				gen = append(gen, h)
			} else {
				r.Bad("generator.(*fileManager).Get/HeaderComment literal", p.PosStr(h.Pos()), fmt.Sprintf("header literal %q does not match the Go convention `// Code generated … DO NOT EDIT.`", constant.StringVal(k.Value)))
			}
			continue
		}
		// "//go:build " + cfg.BuildConstraint
		if bo, ok := arg.(*ssa.BinOp); ok && bo.Op == token.ADD {
			k, isK := bo.X.(*ssa.Const)
			if isK && k.Value != nil && constant.StringVal(k.Value) == "//go:build " && isConfigField(bo.Y, "BuildConstraint") {
				build = append(build, h)
				continue
			}
		}
		r.Bad("generator.(*fileManager).Get/HeaderComment build line", p.PosStr(h.Pos()), "the build line is not the literal \"//go:build \" followed by the unmodified cfg.BuildConstraint")
	}
	if len(news) == 0 {
		r.Unresolved("jen.NewFile* in fileManager.Get")
		return
	}
	// store into m.Files
	var stores []ssa.Instruction
	allInstrs(sf, false, func(in ssa.Instruction) {
		if mu, ok := in.(*ssa.MapUpdate); ok {
			stores = append(stores, mu)
		}
	})
	for i, nf := range news {
		in := nf.(ssa.Instruction)
		site := fmt.Sprintf("generator.(*fileManager).Get/%s#%d", ssaCalleeObj(nf).Name(), i+1)
		isGen := func(x ssa.Instruction) bool {
			for _, g := range gen {
				if g == x {
					return true
				}
			}
			return false
		}
		isStore := func(x ssa.Instruction) bool {
			for _, s := range stores {
				if s == x {
					return true
				}
			}
			return isReturn(x)
		}
		if g := existsPath(in.Block(), instrIndex(in)+1, isStore, isGen); g != nil {
			r.Bad(site, p.PosStr(nf.Pos()), "a created file can be stored/returned ("+p.PosStr(g.Pos())+") without the `Code generated … DO NOT EDIT.` header")
			continue
		}
		r.OK(site, p.PosStr(nf.Pos()), "reaches the generated-code header before being stored")
	}
	if len(build) == 0 {
		r.Bad("generator.(*fileManager).Get/go:build", p.PosStr(fi.Decl.Pos()), "no HeaderComment(\"//go:build \" + cfg.BuildConstraint) is emitted")
	}
	for i, bl := range build {
		in := bl.(ssa.Instruction)
		site := fmt.Sprintf("generator.(*fileManager).Get/go:build#%d", i+1)
		// guard: dominated by true edge of BuildConstraint != "" ; and every path from generated header
		// to the store on which the constraint is non-empty passes it: check the guard is exactly that comparison
		guard := func(cond ssa.Value) bool {
			b, ok := cond.(*ssa.BinOp)
			if !ok || b.Op != token.NEQ {
				return false
			}
			k, isK := b.Y.(*ssa.Const)
			return isK && k.Value != nil && k.Value.Kind() == constant.String && constant.StringVal(k.Value) == "" && isConfigField(b.X, "BuildConstraint")
		}
		if !dominatedByEdge(in.Block(), true, guard) {
			r.Bad(site, p.PosStr(bl.Pos()), "the build constraint line is not guarded by cfg.BuildConstraint != \"\" alone")
			continue
		}
		// the guard's block must be reached from every generated-header call: i.e. header call dominates it and
		// no store happens between header and the guard evaluation
		okOrder := false
		for _, g := range gen {
			gi := g.(ssa.Instruction)
			if gi.Block().Dominates(in.Block()) {
				okOrder = true
			}
		}
		// the only conditions between the file creation and the build line are the guard and the NewFile arm choice
		if !okOrder {
			r.Bad(site, p.PosStr(bl.Pos()), "the build constraint line does not follow the generated-code header")
			continue
		}
		// the if must not be nested in further conditions other than the "file is new" test: its block's idom chain
		// up to the header call contains no other If
		extra := false
		for d := in.Block().Idom(); d != nil; d = d.Idom() {
			isHdrBlock := false
			for _, g := range gen {
				if g.(ssa.Instruction).Block() == d {
					isHdrBlock = true
				}
			}
			if ifi, ok := d.Instrs[len(d.Instrs)-1].(*ssa.If); ok && !guard(ifi.Cond) && !isHdrBlock {
				// Ifs that dominate the header as well are fine (file-is-new test); others are extra conditions
				domHdr := false
				for _, g := range gen {
					if d.Dominates(g.(ssa.Instruction).Block()) {
						domHdr = true
					}
				}
				if !domHdr {
					extra = true
				}
			}
			if isHdrBlock {
				break
			}
		}
		if extra {
			r.Bad(site, p.PosStr(bl.Pos()), "the build constraint line depends on an additional condition")
			continue
		}
		r.OK(site, p.PosStr(bl.Pos()), "\"//go:build \" + cfg.BuildConstraint, guarded by != \"\" only, after the generated-code header")
	}
	// nobody else calls HeaderComment / PackageComment / CgoPreamble
	for _, cs := range p.Calls() {
		fn, ok := cs.Callee.(*types.Func)
		if !ok || objPkgPath(fn) != jenPath || cs.Encl == nil {
			continue
		}
		switch fn.Name() {
		case "HeaderComment", "PackageComment", "CgoPreamble":
			if !p.inRegion("generator.(*fileManager).Get", cs.Encl) {
				r.Bad(cs.Encl.Name()+"/jen."+fn.Name(), p.PosStr(cs.Call.Pos()), "file header manipulated outside fileManager.Get")
			} else if fn.Name() != "HeaderComment" {
				r.Bad(cs.Encl.Name()+"/jen."+fn.Name(), p.PosStr(cs.Call.Pos()), "unexpected header construct")
			}
		}
	}
}

// isConfigField: v is a load of field `name` from a struct value/pointer (cfg.BuildConstraint).
func isConfigField(v ssa.Value, name string) bool {
	v = stripConv(v)
	switch x := v.(type) {
	case *ssa.Field:
		st, ok := x.X.Type().Underlying().(*types.Struct)
		return ok && st.Field(x.Field).Name() == name
	case *ssa.UnOp:
		if x.Op != token.MUL {
			return false
		}
		fa, ok := x.X.(*ssa.FieldAddr)
		if !ok {
			return false
		}
		pt, ok := fa.X.Type().Underlying().(*types.Pointer)
		if !ok {
			return false
		}
		st, ok := pt.Elem().Underlying().(*types.Struct)
		return ok && st.Field(fa.Field).Name() == name
	}
	return false
}

func c16R2(p *Prog, r *Report) {
	r.Rule("C16.R2", "the default of flag output-constraint, parsed with go/build/constraint, evaluates to false under the default of flag build-tags and to true without it (complementary defaults)", 1)
	fi, _ := needFunc(p, r, "cli.parseGen")
	if fi == nil {
		return
	}
	info := fi.Pkg.TypesInfo
	defaults := map[string]string{}
	ast.Inspect(fi.Decl, func(n ast.Node) bool {
		call, ok := n.(*ast.CallExpr)
		if !ok {
			return true
		}
		fn, ok := calleeObj(info, call).(*types.Func)
		if !ok || objPkgPath(fn) != "flag" || (fn.Name() != "String" && fn.Name() != "StringVar") {
			return true
		}
		off := 0
		if fn.Name() == "StringVar" {
			off = 1
		}
		if len(call.Args) < off+2 {
			return true
		}
		name, ok1 := constString(info, call.Args[off])
		def, ok2 := constString(info, call.Args[off+1])
		if ok1 && ok2 {
			defaults[name] = def
		}
		return true
	})
	tags, ok1 := defaults["build-tags"]
	cons, ok2 := defaults["output-constraint"]
	site := "cli.parseGen/flag defaults"
	pos := p.PosStr(fi.Decl.Pos())
	if !ok1 || !ok2 {
		r.Bad(site, pos, "flags build-tags / output-constraint with constant defaults not found")
		return
	}
	expr, err := constraint.Parse("//go:build " + cons)
	if err != nil || cons == "" || tags == "" {
		r.Bad(site, pos, fmt.Sprintf("default constraint %q / tags %q: cannot be evaluated (%v)", cons, tags, err))
		return
	}
	tagset := map[string]bool{}
	for _, t := range strings.Split(tags, ",") {
		tagset[strings.TrimSpace(t)] = true
	}
	with := expr.Eval(func(t string) bool { return tagset[t] })
	without := expr.Eval(func(t string) bool { return false })
	if !with && without {
		r.OK(site, pos, fmt.Sprintf("constraint %q is false under tags %q and true without them", cons, tags))
	} else {
		r.Bad(site, pos, fmt.Sprintf("defaults are not complementary: constraint %q evaluates to %v under tags %q and %v without: goverter would load (or others would skip) its own output", cons, with, tags, without))
	}
}

// c16R3: composite literal wiring.
func c16R3(p *Prog, r *Report) {
	r.Rule("C16.R3", "flag values reach the loaders and the file header unswapped: GenerateConfig{BuildTags: *buildTags, OutputBuildConstraint: *outputConstraint}; ParseDocsConfig.BuildTags and config.Raw.BuildTags = c.BuildTags; generator.Config.BuildConstraint = c.OutputBuildConstraint; pkgload.New receives raw.BuildTags", 5)
	type want struct {
		fn, typPkg, typ, field string
		check                  func(info *types.Info, fi *FuncInfo, v ast.Expr) bool
	}
	fieldOf := func(owner, ownerType, f string) func(*types.Info, *FuncInfo, ast.Expr) bool {
		return func(info *types.Info, fi *FuncInfo, v ast.Expr) bool {
			return isFieldSel(info, v, owner, ownerType, f)
		}
	}
	flagVar := func(flagName string) func(*types.Info, *FuncInfo, ast.Expr) bool {
		return func(info *types.Info, fi *FuncInfo, v ast.Expr) bool {
			st, ok := ast.Unparen(v).(*ast.StarExpr)
			if !ok {
				return false
			}
			id, ok := ast.Unparen(st.X).(*ast.Ident)
			if !ok {
				return false
			}
			def := localDef(info, fi.Decl, info.ObjectOf(id))
			call, ok := ast.Unparen(def).(*ast.CallExpr)
			if !ok || len(call.Args) < 1 {
				return false
			}
			fn, ok := calleeObj(info, call).(*types.Func)
			if !ok || objPkgPath(fn) != "flag" {
				return false
			}
			s, ok := constString(info, call.Args[0])
			return ok && s == flagName
		}
	}
	wants := []want{
		{"cli.parseGen", modPath, "GenerateConfig", "BuildTags", flagVar("build-tags")},
		{"cli.parseGen", modPath, "GenerateConfig", "OutputBuildConstraint", flagVar("output-constraint")},
		{"cli.parseGen", modPath, "GenerateConfig", "WorkingDir", flagVar("cwd")},
		{"goverter.generateConvertersRaw", modPath + "/comments", "ParseDocsConfig", "BuildTags", fieldOf(modPath, "GenerateConfig", "BuildTags")},
		{"goverter.generateConvertersRaw", modPath + "/config", "Raw", "BuildTags", fieldOf(modPath, "GenerateConfig", "BuildTags")},
		{"goverter.generateConvertersRaw", modPath + "/generator", "Config", "BuildConstraint", fieldOf(modPath, "GenerateConfig", "OutputBuildConstraint")},
	}
	for _, w := range wants {
		fi, _ := needFunc(p, r, w.fn)
		if fi == nil {
			continue
		}
		info := fi.Pkg.TypesInfo
		site := fmt.Sprintf("%s/%s.%s", w.fn, w.typ, w.field)
		found := false
		for _, rf := range p.Region(w.fn) {
			rf := rf
			ast.Inspect(rf.Decl, func(n ast.Node) bool {
				cl, ok := n.(*ast.CompositeLit)
				if !ok || !isNamed(info.TypeOf(cl), w.typPkg, w.typ) {
					return true
				}
				v := compositeField(cl, w.field)
				if v == nil {
					return true
				}
				found = true
				// a literal built in a private helper from its parameters: judge the argument at the call site
				in := rf
				if id, isID := ast.Unparen(v).(*ast.Ident); isID && rf != fi {
					if e, f := originExpr(p, rf, id, 0); e != nil && f != nil {
						v, in = e, f
					}
				}
				if w.check(info, in, v) {
					r.OK(site, p.PosStr(v.Pos()), "wired to "+exprString(v))
				} else {
					r.Bad(site, p.PosStr(v.Pos()), "wired to "+exprString(v)+", which is not the corresponding option")
				}
				return true
			})
		}
		if !found {
			r.Bad(site, p.PosStr(fi.Decl.Pos()), "field is not set: the option does not reach its consumer")
		}
	}
	// config.Parse → pkgload.New(raw.WorkDir, raw.BuildTags, …)
	fi, _ := needFunc(p, r, "config.Parse")
	if fi != nil {
		info := fi.Pkg.TypesInfo
		calls := findCalls(info, fi.Decl, modPath+"/pkgload", "", "New")
		if len(calls) != 1 {
			r.Bad("config.Parse/pkgload.New", p.PosStr(fi.Decl.Pos()), "expected one pkgload.New call")
		} else if isFieldSel(info, calls[0].Args[1], modPath+"/config", "Raw", "BuildTags") && isFieldSel(info, calls[0].Args[0], modPath+"/config", "Raw", "WorkDir") {
			r.OK("config.Parse/pkgload.New", p.PosStr(calls[0].Pos()), "receives raw.WorkDir, raw.BuildTags")
		} else {
			r.Bad("config.Parse/pkgload.New", p.PosStr(calls[0].Pos()), "pkgload.New does not receive raw.WorkDir / raw.BuildTags")
		}
	}
}

// c16R4: every packages.Load config carries "-tags", tags.
func c16R4(p *Prog, r *Report, id string) {
	r.Rule(id, "every packages.Load call in own code uses a config whose BuildFlags receive exactly \"-tags\", <the unmodified build-tag string> under a `!= \"\"` guard on that same string (both loaders agree), and whose Dir is the configured working directory", 2)
	for _, cs := range p.Calls() {
		if !isFunc(cs.Callee, "golang.org/x/tools/go/packages", "", "Load") || cs.Encl == nil {
			continue
		}
		site := p.anchorFor(cs.Encl, []string{"comments.ParseDocs", "pkgload.(*PackageLoader).load"}) + "/packages.Load config"
		pos := p.PosStr(cs.Call.Pos())
		info := cs.Pkg.TypesInfo
		// the statement-shape analysis below is tried first; what it cannot recognise is decided on the values
		// that reach the config (data flow), so a flag list built as a literal, via a local or in a helper is fine
		badOr := func(msg string) {
			if sf := p.SSAFunc(cs.Encl); sf != nil {
				var ld ssa.CallInstruction
				allInstrs(sf, true, func(in ssa.Instruction) {
					if c, ok := in.(ssa.CallInstruction); ok && in.Pos() == cs.Call.Lparen {
						ld = c
					}
				})
				if ld != nil {
					if ok, _ := tagsWiringSSA(p, ld); ok {
						r.OK(site, pos, "every value reaching BuildFlags is nil or (\"-tags\", <unmodified tags>) built under tags != \"\" only (data flow)")
						return
					}
				}
			}
			r.Bad(site, pos, msg)
		}
		cfgID, ok := ast.Unparen(cs.Call.Args[0]).(*ast.Ident)
		if !ok {
			badOr("config argument is not a local variable")
			continue
		}
		cfgObj := info.ObjectOf(cfgID)
		// find BuildFlags = append(cfg.BuildFlags, "-tags", X)
		var tagsExpr ast.Expr
		var appendStmt ast.Node
		nAssign := 0
		var stk []ast.Node
		walkStack(cs.Encl.Decl, func(n ast.Node, stack []ast.Node) bool {
			as, ok := n.(*ast.AssignStmt)
			if !ok || len(as.Lhs) != 1 {
				return true
			}
			sel, ok := ast.Unparen(as.Lhs[0]).(*ast.SelectorExpr)
			if !ok || sel.Sel.Name != "BuildFlags" {
				return true
			}
			if id := rootIdent(sel.X); id == nil || info.ObjectOf(id) != cfgObj {
				return true
			}
			nAssign++
			call, ok := ast.Unparen(as.Rhs[0]).(*ast.CallExpr)
			if !ok || len(call.Args) != 3 {
				return true
			}
			if b, isB := calleeObj(info, call).(*types.Builtin); !isB || b.Name() != "append" {
				return true
			}
			if s, ok := constString(info, call.Args[1]); ok && s == "-tags" {
				tagsExpr = call.Args[2]
				appendStmt = as
				stk = append([]ast.Node{}, stack...)
			}
			return true
		})
		if tagsExpr == nil || nAssign != 1 {
			badOr("BuildFlags are not set by exactly one `append(cfg.BuildFlags, \"-tags\", tags)`: the loader would not see (all of) the build tags")
			continue
		}
		// tagsExpr must be a plain parameter or field BuildTags (unmodified)
		plain := false
		var tagObj types.Object
		if id, ok := ast.Unparen(tagsExpr).(*ast.Ident); ok {
			if v, ok := info.ObjectOf(id).(*types.Var); ok && isParamOf(cs.Encl, v) {
				plain = true
				tagObj = v
			}
		}
		if sel, ok := ast.Unparen(tagsExpr).(*ast.SelectorExpr); ok && sel.Sel.Name == "BuildTags" {
			plain = true
			tagObj = info.ObjectOf(sel.Sel)
		}
		if !plain {
			badOr("the value after \"-tags\" (" + exprString(tagsExpr) + ") is not the unmodified configured tag string")
			continue
		}
		// guard
		okGuard := false
		for _, g := range guardsOf(stk, appendStmt) {
			if g.Neg || g.Cond == nil {
				continue
			}
			if b, ok := ast.Unparen(g.Cond).(*ast.BinaryExpr); ok && b.Op == token.NEQ {
				if s, ok := constString(info, b.Y); ok && s == "" {
					var o types.Object
					switch x := ast.Unparen(b.X).(type) {
					case *ast.Ident:
						o = info.ObjectOf(x)
					case *ast.SelectorExpr:
						o = info.ObjectOf(x.Sel)
					}
					if o == tagObj {
						okGuard = true
					}
				}
			}
		}
		nGuards := 0
		for _, g := range guardsOf(stk, appendStmt) {
			if g.Cond != nil {
				nGuards++
			}
		}
		if !okGuard || nGuards != 1 {
			badOr("the -tags flag is not guarded by exactly `tags != \"\"`")
			continue
		}
		// the append must precede the Load call in the same function (position order suffices within straight code)
		if appendStmt.Pos() > cs.Call.Pos() {
			badOr("BuildFlags are set after packages.Load")
			continue
		}
		r.OK(site, pos, "BuildFlags += \"-tags\", "+exprString(tagsExpr)+" under != \"\"")
	}
}

func isParamOf(fi *FuncInfo, v *types.Var) bool {
	sig := fi.Obj.Type().(*types.Signature)
	for i := 0; i < sig.Params().Len(); i++ {
		if sig.Params().At(i) == v {
			return true
		}
	}
	return false
}
