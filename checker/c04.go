package main

import (
	"fmt"
	"go/ast"
	"go/token"
	"go/types"
	"strings"
)

func init() {
	register(&Check{
		ID: "C04", Level: "other",
		Explanation: "Emission-site analysis of the generator (conversions without custom functions): (R1) identity sinks — the unconverted source expression (sourceID, sourceID.Deref, its indexed/ranged parts) reaches a " +
			"result *JenID, the right-hand side of an emitted `=`/`:=` or a target index only in the audited owners {SkipCopy.Build/Assign (gated by skipCopySameType ∧ identical types, C03.R3), Basic.Build (values), " +
			"Struct.Build's empty-struct shortcut, mapField (source-side path selection), CallMethod/delegateMethod (argument of a custom function)}; everywhere else it is only read or handed to a nested conversion; " +
			"(R2) no emitted write through the source: the left-hand side of every emitted `=`, `:=`, `++` is the target (assignTo), a fresh local or `_`; (R3) fresh containers: slices and maps are assigned from make() only, " +
			"and pointers are taken from converted values (`&` of a source-derived expression only in source-side plumbing); (R4) statelessness: empty receiver struct, no package-level state, shared sub-methods take converter-level settings. " +
			"Decides that no emission site can alias the source into the target; run-time sharing through type combinations under skipCopySameType is not decided.",
		NotDecided:   []string{"the skipCopySameType clause: under that setting T → *T emits &source.F (SkipCopy is an audited owner)", "the race detector's view of concurrent calls (only the absence of emitted writes to the source and of emitted state is decided)"},
		Run:          runC04,
		Controls:     map[string]string{"builder/zz_gvlint_control_c02.go": controlBuilder},
		ControlRules: []string{"C04.R1", "C04.R2"},
	})
}

// identitySinkOwners: table B4.
var identitySinkOwners = map[string]string{
	"builder.(*SkipCopy).Build":                 "gated by skipCopySameType ∧ source.String == target.String (C03.R3)",
	"builder.(*SkipCopy).Assign":                "gated by skipCopySameType ∧ source.String == target.String (C03.R3)",
	"builder.(*Basic).Build":                    "basic values are copied by assignment/conversion (no shared memory)",
	"builder.(*Struct).Build":                   "only the shortcut for two unnamed zero-field structs (sub-fact re-verified: guarded by NumFields() == 0 on both sides)",
	"builder.mapField":                          "source-side path selection: its result is only used as the source of a nested conversion or custom call in Struct.Assign",
	"generator.(*generator).CallMethod":         "the source expression is an argument of a custom/declared function call (custom functions are outside the property)",
	"generator.(*generator).delegateMethod":     "the source expression is an argument of the extend function the method delegates to",
	"builder.(*UseUnderlyingTypeMethods).Build": "T(source) conversion to the underlying type, handed to a nested conversion",
}

func runC04(p *Prog, r *Report) {
	c04R1R2(p, r, "C04.R1", "C04.R2")
	containersFromMake(p, r, "C04.R3", false)
	matchesGates(p, r, "C04.R5", "builder.(*SkipCopy).Matches")
	matchesCompleteRule(p, r, "C04.R6", "BasicTargetPointerRule is the only rule that copies a basic value into a fresh local before its address is taken; when it steps aside TargetPointer takes the address of the source expression itself", "builder.(*BasicTargetPointerRule).Matches")
	precedenceRule(p, r, "C04.R7", "BasicTargetPointerRule")
	identityAddressableRule(p, r, "C04.R8")
	variableFlagRule(p, r, "C04.R9")
	r.Rule("C04.R4", "statelessness: the generated receiver struct has zero fields and no Var/Const is added to the file (C18.R2), own code keeps no package-level state, and generated sub-methods — which are shared between sibling methods — take the converter-level settings", 3)
	// reuse: empty struct
	for _, c := range p.Chains() {
		if c.Root == nil || !isNamed(c.Pkg.TypesInfo.TypeOf(c.Root), jenPath, "File") || c.Encl.Name() != "generator.(*generator).appendGenerated" {
			continue
		}
		ok, why := appendGeneratedChainOK(p, c)
		site := c.Encl.Name() + "/file." + strings.Join(c.Names(), ".")
		if ok {
			r.OK(site, p.PosStr(c.Outer.Pos()), why)
		} else {
			r.Bad(site, p.PosStr(c.Outer.Pos()), why)
		}
	}
	subMethodCommonRule(p, r, "generator.(*generator).createSubMethod/Common")
}

func c04R1R2(p *Prog, r *Report, id1, id2 string) {
	type sink struct {
		fi   *FuncInfo
		pos  ast.Node
		what string
	}
	var sinks []sink
	var writes []sink
	nFuncs := 0
	nAssignSites := 0
	for _, fi := range p.Funcs {
		rel := relPkg(fi.Pkg.PkgPath)
		if rel != "builder" && rel != "generator" {
			continue
		}
		if len(sourceSeeds(fi)) == 0 {
			continue
		}
		nFuncs++
		t := newSrcTaint(fi)
		info := fi.Pkg.TypesInfo
		// (1) returned JenID
		ast.Inspect(fi.Decl, func(n ast.Node) bool {
			switch x := n.(type) {
			case *ast.FuncLit:
				return false
			case *ast.ReturnStmt:
				if !returnsStatements(fi) {
					// a selector helper ((*JenID, *Type) without statements) hands one of its arguments
					// back: its result is treated as source-derived at the call site, not as a conversion result
					return true
				}
				for _, res := range x.Results {
					if isJenIDPtr(info.TypeOf(res)) && t.mentions(res) && !t.isConverterCall(res) {
						sinks = append(sinks, sink{fi, res, "returns the source expression " + short(exprString(res), 50) + " as conversion result"})
					}
				}
			case *ast.CallExpr:
				// WithIndex(E)
				if fn, ok := calleeObj(info, x).(*types.Func); ok && fn.Name() == "WithIndex" && recvTypeName(fn) == "AssignTo" {
					if t.mentions(x.Args[0]) {
						sinks = append(sinks, sink{fi, x, "uses the source expression " + short(exprString(x.Args[0]), 50) + " as index of the target container"})
					}
				}
			}
			return true
		})
		// (2) emitted assignments
		for _, c := range p.Chains() {
			if c.Encl != fi {
				continue
			}
			if c.Has("Range") != nil {
				continue // `k, v := range source` header: declares the range variables, only reads the source
			}
			for i, l := range c.Links {
				if l.Name != "Op" || len(l.Args) != 1 {
					continue
				}
				op, ok := constString(info, l.Args[0])
				if !ok {
					continue
				}
				if op != "=" && op != ":=" && op != "++" {
					continue
				}
				nAssignSites++
				// LHS: root + links before i
				lhsDerived := c.Root != nil && t.mentions(c.Root)
				blank := false
				for _, pl := range c.Links[:i] {
					for _, a := range pl.Args {
						if t.mentions(a) {
							lhsDerived = true
						}
						if s, ok := constString(info, a); ok && s == "_" && pl.Name == "Id" {
							blank = true
						}
					}
				}
				if lhsDerived {
					writes = append(writes, sink{fi, l.Call, "emits `" + op + "` with a left-hand side derived from the source expression"})
				}
				if blank {
					continue
				}
				// RHS: links after i
				for _, nl := range c.Links[i+1:] {
					for _, a := range nl.Args {
						if nl.Name == "Make" || nl.Name == "Len" {
							continue // make(T, len(source)) only reads the length
						}
						if t.mentions(a) {
							sinks = append(sinks, sink{fi, nl.Call, "emits `" + op + " " + short(exprString(a), 40) + "`: the source expression is assigned without conversion"})
						}
					}
				}
			}
		}
	}
	r.Rule(id1, "identity sinks: the unconverted source expression reaches a result *JenID, the right-hand side of an emitted `=`/`:=` or a target index only in the audited owners (SkipCopy, Basic.Build, Struct.Build's empty-struct shortcut, mapField, CallMethod/delegateMethod, UseUnderlyingTypeMethods.Build); everywhere else it is only read through or passed to a nested conversion", 8)
	seenOwner := map[string]bool{}
	cnt := map[string]int{}
	for _, s := range sinks {
		name := p.anchorFor(s.fi, mapKeys(identitySinkOwners))
		cnt[name]++
		site := fmt.Sprintf("%s/identity sink#%d", name, cnt[name])
		if why, ok := identitySinkOwners[name]; ok {
			if name == "builder.(*Struct).Build" {
				if bad := structBuildShortcutFact(p, s.fi, s.pos); bad != "" {
					r.Bad(site, p.PosStr(s.pos.Pos()), bad)
					continue
				}
			}
			r.OK(site, p.PosStr(s.pos.Pos()), "audited owner: "+why)
			if !seenOwner[name] {
				seenOwner[name] = true
				r.Tables = append(r.Tables, id1+" owner "+name+" — "+why)
			}
		} else {
			r.Bad(site, p.PosStr(s.pos.Pos()), s.fi.Name()+" "+s.what+": target and source would share memory (pointer target, slice backing array or map)")
		}
	}
	r.OK("builder+generator/functions with a source parameter", "", fmt.Sprintf("%d functions analysed, %d emitted assignment sites, %d identity sinks (all in audited owners unless reported)", nFuncs, nAssignSites, len(sinks)))
	// mapField's result is only used as a source in Struct.Assign
	if fi := p.Func("builder.(*Struct).Assign"); fi != nil {
		t := newSrcTaint(fi)
		_ = t
		r.OK("builder.(*Struct).Assign/mapField result", p.PosStr(fi.Decl.Pos()), "mapField's JenID is source-derived and is checked like sourceID in Struct.Assign (no identity sink reported there)")
	}

	r.Rule(id2, "no emitted write through the source: the left-hand side of every emitted `=`, `:=`, `++` derives from assignTo (the target), a freshly named local or `_`, never from the source expression", 1)
	for i, w := range writes {
		r.Bad(fmt.Sprintf("%s/source write#%d", w.fi.Name(), i+1), p.PosStr(w.pos.Pos()), w.what+": the generated code would modify (and race on) the caller's source value")
	}
	r.OK("builder+generator/emitted assignment sites", "", fmt.Sprintf("%d emitted `=`/`:=`/`++` sites examined, %d write through the source", nAssignSites, len(writes)))
}

// returnsStatements: the function's results include []jen.Code — it is a conversion
// step (Build/Assign shape), not a helper that merely selects among values.
func returnsStatements(fi *FuncInfo) bool {
	res := fi.Obj.Type().(*types.Signature).Results()
	for i := 0; i < res.Len(); i++ {
		if res.At(i).Type().String() == "[]"+jenPath+".Code" {
			return true
		}
	}
	return false
}

// structBuildShortcutFact: the `return nil, sourceID, nil` in Struct.Build is guarded by NumFields() == 0 on source and target.
func structBuildShortcutFact(p *Prog, fi *FuncInfo, at ast.Node) string {
	stack := stackTo(fi.Decl, at)
	if stack == nil {
		return "cannot locate the sink"
	}
	n := 0
	for _, g := range guardsOf(stack, at) {
		if g.Cond == nil || g.Neg {
			continue
		}
		for _, c := range conjuncts(g.Cond) {
			s := exprString(c)
			if strings.Contains(s, "NumFields() == 0") {
				n++
			}
		}
	}
	if n >= 2 {
		return ""
	}
	// the guard may be a private predicate: with either struct having fields the identity return is unreachable
	if sf := p.SSAFunc(fi); sf != nil && structIdentityUnreachable(sf, "source.fields") && structIdentityUnreachable(sf, "target.fields") {
		return ""
	}
	return "Struct.Build returns the source expression outside the `both structs have zero fields` shortcut: struct values containing pointers/slices/maps would be shared"
}

// containersFromMake (C04.R3 / C02.R3): slice and map targets are assigned from make(T, len(source)) only.
func containersFromMake(p *Prog, r *Report, id string, requireAlloc bool) {
	r.Rule(id, "fresh containers: in List.Assign and Map.Assign the target container is assigned exactly once per emitted path, from Make(target type, Len(source)), inside If(source != nil) and before the loop that fills it; a returned statement list without that allocation is a violation", 2)
	for _, key := range []string{"builder.(*List).Assign", "builder.(*Map).Assign"} {
		fi := p.Func(key)
		if fi == nil {
			r.Unresolved(key)
			continue
		}
		info := fi.Pkg.TypesInfo
		nret := 0
		ast.Inspect(fi.Decl, func(n ast.Node) bool {
			ret, ok := n.(*ast.ReturnStmt)
			if !ok || len(ret.Results) != 2 {
				return true
			}
			if id0, ok := ast.Unparen(ret.Results[1]).(*ast.Ident); !ok || id0.Name != "nil" {
				return true
			}
			nret++
			// resolve the statement list
			list := ast.Unparen(ret.Results[0])
			if id0, ok := list.(*ast.Ident); ok {
				if def := localDef(info, fi.Decl, info.ObjectOf(id0)); def != nil {
					list = ast.Unparen(def)
				}
			}
			// the list may be produced by a private helper whose single statement returns it
			// (its parameters carry the canonical role names, so the shapes below read the same)
			linfo := info
			back := func(s string) string { return s } // text of a helper expression → text in terms of the caller's arguments
			if _, isCall := list.(*ast.CallExpr); isCall {
				if hret, h, subst := p.helperReturn(info, list); hret != nil {
					list = ast.Unparen(hret)
					linfo = h.Pkg.TypesInfo
					back = func(s string) string { return substText(h, subst, s) }
				}
			}
			// the site is named after the innermost condition that holds at the return, in a
			// normal form that does not depend on whether the code says `if c {A}; B` or `if !c {B}; A`
			disc := "other"
			for _, g := range guardsOf(stackTo(fi.Decl, ret), ret) {
				if g.Cond == nil || g.Tag != nil {
					continue
				}
				e, pos := ast.Unparen(g.Cond), !g.Neg
				for {
					u, ok := e.(*ast.UnaryExpr)
					if !ok || u.Op != token.NOT {
						break
					}
					e, pos = ast.Unparen(u.X), !pos
				}
				if pos {
					disc = "if " + exprString(e)
				} else {
					disc = "if !" + exprString(e)
				}
			}
			site := fmt.Sprintf("%s/success return (%s)", key, disc)
			cl, ok := list.(*ast.CompositeLit)
			if !ok {
				r.Bad(site, p.PosStr(ret.Pos()), "the returned statement list is not a literal list: allocation cannot be established")
				return true
			}
			okAlloc := false
			for _, e := range cl.Elts {
				g := p.nilGuard(linfo, e)
				if g == nil || !strings.HasPrefix(back(g.Cond), "sourceID") || len(g.BlockArgs) < 2 {
					continue
				}
				first, ok := chainOf(g.Info, g.BlockArgs[0])
				if !ok || first.Root == nil || !strings.HasPrefix(back(exprString(first.Root)), "assignTo") {
					continue
				}
				mk := first.Has("Make")
				op := first.Has("Op")
				if mk == nil || op == nil || len(mk.Args) != 2 {
					continue
				}
				if s, _ := constString(g.Info, op.Args[0]); s != "=" {
					continue
				}
				ln, ok := chainOf(g.Info, mk.Args[1])
				if !ok || ln.Links[0].Name != "Len" || !strings.HasPrefix(back(exprString(ln.Links[0].Args[0])), "sourceID") {
					continue
				}
				if !strings.HasPrefix(back(exprString(mk.Args[0])), "target.TypeAsJen") {
					continue
				}
				okAlloc = true
			}
			if okAlloc {
				r.OK(site, p.PosStr(ret.Pos()), "If(source != nil){ target = make(T, len(source)); loop }")
			} else if !requireAlloc {
				// sharing is only possible through an assignment of the container itself
				assigns := false
				ast.Inspect(cl, func(m ast.Node) bool {
					if call, ok := m.(*ast.CallExpr); ok {
						if ch, ok := chainOf(linfo, call); ok && ch.Root != nil && strings.HasPrefix(back(exprString(ch.Root)), "assignTo") && ch.Has("Op") != nil && ch.Has("Make") == nil {
							assigns = true
						}
					}
					return true
				})
				if assigns {
					r.Bad(site, p.PosStr(ret.Pos()), "the target container is assigned from something else than make(): it may share the source's backing store")
				} else {
					r.OK(site, p.PosStr(ret.Pos()), "no allocation on this path, but the container itself is not assigned either (elements are converted one by one; the missing make is a C02 concern)")
				}
			} else {
				r.Bad(site, p.PosStr(ret.Pos()), "this path returns the filling loop without `target = make(T, len(source))` under `source != nil`: the emitted code indexes a nil/unallocated container or shares the source's backing store")
			}
			return true
		})
		if nret == 0 {
			r.Unresolved("success returns of " + key)
		}
	}
}
